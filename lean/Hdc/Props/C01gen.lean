import Hdc.Lemmas.Ws2dGen
import Hdc.Props.C01
import Std.Tactic.Do
import Mathlib.Tactic.NormNum
/-
C01gen  The GENERATED translation of `hdc/algo/ops/ws2d.py` (Hdc/Gen/Ws2d.lean, an imperative
`Id.run do` program over arrays with Python index semantics) computes the hand model `Hdc.ws2d`,
hence (by C01) the exact penalised least-squares solution.

Method: the verification-condition generator `mvcgen` (Std.Do) is run on the generated program with
two loop invariants stated through the ℕ-indexed rows of the model (Hdc/Lemmas/Ws2dRows.lean):

  * forward loop  `Fwd k z d c e` : rows `< k` of the work arrays are the rows of the model;
  * backward loop `Bwd t z`       : cells `≥ t` of `z` are the output of the model, cells `< t` still
                                     the forward-substituted right-hand side.

The generated expressions are never copied into this file: every verification condition presents the
source assignments as local definitions `a := wr a₀ i v`; `wr_upd` turns each into the facts
"size unchanged, cell `i` is `v`, other cells unchanged", and `v` is rewritten to the corresponding
field of the model row by `simp` + `ring` (`row_arith`; the model's uniform formula differs from the hand-written
rows 0, 1, m-1, m of the source only by terms `0 * 0 * 0`).  No positivity hypothesis: division by
zero is the same on both sides.

Range: n ≥ 3.  For n ≥ 4 every index of the source is in `[0, n)`.  At n = 3 the forward loop is
empty, row 1 is written twice (first with the coefficient -4, then as row m-1 with -2) and the
source reads `e[-1]`, `d[-1]`, `z[-1]` (`i2 = m - 3 = -1`, Python wrap-around to the last cell), which
are still 0 at that point — the invariant `Fwd` carries "`e` is zero from row `k` on" for exactly this
read.  At n = 2 the source and the model differ (the model is documented for n ≥ 3).
-/
namespace Hdc.C01gen
open Hdc Hdc.Gen.Ws2d Hdc.Ws2dGen Hdc.Ws2d Std.Do

set_option mvcgen.warning false
-- the same simp set is used for every row on purpose (robust against harmless regeneration)
set_option linter.unusedSimpArgs false
-- likewise every row ends with `row_arith`, also where `simp` already closed the goal
set_option linter.unusedTactic false
set_option linter.unreachableTactic false

/-- The translated source equals the hand model (n ≥ 3, any field, any λ, any weights). -/
theorem gen_ws2d_eq_model {α : Type} [Field α] (y w : List α) (lam : α)
    (h : w.length = y.length) (hn : 3 ≤ y.length) :
    (Hdc.Gen.Ws2d.ws2d y.toArray lam w.toArray).toList = Hdc.ws2d y lam w := by
  generalize hres : Hdc.Gen.Ws2d.ws2d y.toArray lam w.toArray = res
  apply Id.of_wp_run_eq hres
  mvcgen invariants
  · ⇓⟨xs, s⟩ => ⌜Fwd y w lam (xs.prefix.length + 2) s.2.2.1 s.2.2.2.1 s.2.2.2.2.1 s.2.2.2.2.2⌝
  · ⇓⟨xs, z⟩ => ⌜Bwd y w lam (y.length - 2 - xs.prefix.length) z⌝
  -- rows 0 and 1 (written by hand in the source) establish the forward invariant
  case vc2.pre =>
    have r0 : ∀ a : Array α, rd a 0 = av a 0 := fun a => rd_of_eq a _ _ (by omega)
    have r1 : ∀ a : Array α, rd a 1 = av a 1 := fun a => rd_of_eq a _ _ (by omega)
    py_name z as z1; py_name e as e1; py_name c as c1; py_name d as d1
    py_name z as z0; py_name e as e0; py_name c as c0; py_name d as d0
    py_name z as zz
    have F0 : Fwd y w lam 0 zz zz zz zz := Fwd.init y w lam _ (by
      simp (config := {zetaDelta := true}) only [List.size_toArray, Int.toNat_natCast])
    clear_value zz
    -- row 0
    have ud := wr_upd (a := d0) rfl 0 (by omega) (by rw [F0.hd.size]; omega)
    clear_value d0
    have Hd := F0.hd.step ud (by
      rw [Rw_d_zero, diagCoef_first]
      simp only [r0, av_toArray, Nat.cast_one, one_mul]
      row_arith)
    have uc := wr_upd (a := c0) rfl 0 (by omega) (by rw [F0.hc.size]; omega)
    clear_value c0
    have Hc := (F0.hc.cast (k' := 0) (by omega)).step uc (by
      rw [Rw_c_zero, supCoef_first]
      simp (disch := omega) only [r0, Hd.get, nat]
      row_arith)
    have ue := wr_upd (a := e0) rfl 0 (by omega) (by rw [F0.he.size]; omega)
    clear_value e0
    have He := F0.he.step ue (by
      rw [Rw_e]
      simp (disch := omega) only [r0, Hd.get]
      row_arith)
    have Ze := F0.ze.step ue
    have uz := wr_upd (a := z0) rfl 0 (by omega) (by rw [F0.hz.size]; omega)
    clear_value z0
    have Hz := F0.hz.step uz (by
      rw [Rw_u_zero]
      simp (disch := omega) only [r0, av_toArray]
      row_arith)
    -- row 1
    have ud1 := wr_upd (a := d1) rfl 1 (by omega) (by rw [Hd.size]; omega)
    clear_value d1
    have Hd1 := Hd.step ud1 (by
      rw [Rw_d_one, diagCoef_second _ hn]
      simp (disch := omega) only [r0, r1, av_toArray, Hd.get, Hc.get, nat, Nat.cast_ofNat]
      row_arith)
    have uc1 := wr_upd (a := c1) rfl 1 (by omega) (by rw [Hc.size]; omega)
    clear_value c1
    have Hc1 : Holds y.length (fun j => (Rw y w lam j).c) (min 2 (y.length - 2)) c1 := by
      by_cases h4 : 4 ≤ y.length
      · exact (Hc.step uc1 (by
          rw [Rw_c_succ, supCoef_mid _ _ (by omega) (by omega)]
          simp (disch := omega) only [r0, r1, Hd1.get, Hc.get, He.get, nat,
            Nat.cast_ofNat]
          row_arith)).cast (by omega)
      · -- n = 3: row 1 is row m - 1, the tail overwrites it with the coefficient -2
        exact (Hc.keep uc1 (le_refl _)).cast (by omega)
    have ue1 := wr_upd (a := e1) rfl 1 (by omega) (by rw [He.size]; omega)
    clear_value e1
    have He1 := He.step ue1 (by
      rw [Rw_e]
      simp (disch := omega) only [r1, Hd1.get]
      row_arith)
    have Ze1 := Ze.step ue1
    have uz1 := wr_upd (a := z1) rfl 1 (by omega) (by rw [Hz.size]; omega)
    clear_value z1
    have Hz1 := Hz.step uz1 (by
      rw [Rw_u_one]
      simp (disch := omega) only [r0, r1, av_toArray, Hc1.get, Hz.get]
      row_arith)
    exact ⟨Hz1, Hd1, Hc1, He1, Ze1⟩
  -- the forward loop preserves it
  case vc1.step =>
    py_name z as z1; py_name e as e1; py_name c as c1; py_name d as d1
    py_name pref as pref; py_name cur as cur
    have hF := ‹Fwd y w lam _ _ _ _ _›
    obtain ⟨hcur, hlt⟩ := pyRange_split _ _ _ _ _ ‹pyRange _ _ = _ ++ _ :: _›
    simp (config := {zetaDelta := true}) only [List.size_toArray] at hlt
    simp only [List.length_append, List.length_singleton]
    generalize pref.length = p at *
    have r0 : ∀ a : Array α, rd a cur = av a (p + 2) := fun a => rd_of_eq a _ _ (by omega)
    have r1 : ∀ a : Array α, rd a (cur - 1) = av a (p + 1) := fun a => rd_of_eq a _ _ (by omega)
    have r2 : ∀ a : Array α, rd a (cur - 2) = av a p := fun a => rd_of_eq a _ _ (by omega)
    have hFc := hF.hc.cast (k' := p + 2) (by omega)
    have ud := wr_upd (a := d1) rfl (p + 2) (by omega) (by rw [hF.hd.size]; omega)
    clear_value d1
    have Hd := hF.hd.step ud (by
      rw [Rw_d_succ2, diagCoef_mid _ _ (by omega) (by omega)]
      simp (config := {zetaDelta := true}) (disch := omega) only [r0, r1, r2, av_toArray,
        hF.hd.get, hFc.get, hF.he.get, nat, Nat.cast_ofNat]
      row_arith)
    have uc := wr_upd (a := c1) rfl (p + 2) (by omega) (by rw [hF.hc.size]; omega)
    clear_value c1
    have Hc := hFc.step uc (by
      rw [Rw_c_succ, supCoef_mid _ _ (by omega) (by omega)]
      simp (config := {zetaDelta := true}) (disch := omega) only [r0, r1, r2, Hd.get, hFc.get,
        hF.he.get, nat, Nat.cast_ofNat]
      row_arith)
    have ue := wr_upd (a := e1) rfl (p + 2) (by omega) (by rw [hF.he.size]; omega)
    clear_value e1
    have He := hF.he.step ue (by
      rw [Rw_e]
      simp (config := {zetaDelta := true}) (disch := omega) only [r0, Hd.get]
      row_arith)
    have uz := wr_upd (a := z1) rfl (p + 2) (by omega) (by rw [hF.hz.size]; omega)
    clear_value z1
    have Hz := hF.hz.step uz (by
      rw [Rw_u_succ2]
      simp (config := {zetaDelta := true}) (disch := omega) only [r0, r1, r2, av_toArray, Hc.get,
        He.get, hF.hz.get]
      row_arith)
    exact ⟨Hz, Hd, Hc.cast (by omega), He, hF.ze.step ue⟩
  -- rows m - 1 and m (written by hand in the source) and the first two steps of the back
  -- substitution establish the backward invariant
  case vc4.post.success.pre =>
    obtain ⟨q, hq⟩ : ∃ q, y.length = q + 3 := ⟨y.length - 3, by omega⟩
    py_name z as z3; py_name z as z2; py_name d as d2; py_name z as z1; py_name c as c1
    py_name d as d1
    have hF := ‹Fwd y w lam _ _ _ _ _›
    have hK : (q + 1 ≤ (pyRange 2 ((y.length : ℤ) - 1 - 1)).length + 2) ∧
        ((pyRange 2 ((y.length : ℤ) - 1 - 1)).length + 2 ≤ q + 2) := by
      simp only [pyRange_length]; omega
    simp (config := {zetaDelta := true}) only [List.size_toArray] at hF
    have HD := hF.hd.mono hK.1
    have HC := hF.hc.mono (k' := q + 1) (by omega)
    have HE := hF.he.mono hK.1
    have HU := hF.hz.mono hK.1
    have rm : ∀ a : Array α, rd a ((y.length : ℤ) - 1) = av a (q + 2) :=
      fun a => rd_of_eq a _ _ (by omega)
    have rm1 : ∀ a : Array α, rd a ((y.length : ℤ) - 1 - 1) = av a (q + 1) :=
      fun a => rd_of_eq a _ _ (by omega)
    have rm2 : ∀ a : Array α, rd a ((y.length : ℤ) - 1 - 2) = av a q :=
      fun a => rd_of_eq a _ _ (by omega)
    -- row m - 1
    have ud := wr_upd (a := d1) rfl (q + 1)
      (by simp (config := {zetaDelta := true}) only [List.size_toArray]; omega)
      (by rw [HD.size]; omega)
    clear_value d1
    have Hd := HD.step ud (by
      rcases q with _ | q
      · -- n = 3: `i2 = -1` wraps around to the last cell, where `e` is still zero
        have re := rd_wrap_zero hF.he.size hF.ze ((y.length : ℤ) - 1 - 3) 2 (by omega) (by omega)
          hK.2
        rw [Rw_d_one, diagCoef_penult _ _ (by omega) (by omega)]
        simp (config := {zetaDelta := true}) (disch := omega) only [List.size_toArray, rm, rm1, rm2,
          re, av_toArray, HD.get, HC.get, HE.get, nat, Nat.cast_ofNat]
        row_arith
      · have rm3 : ∀ a : Array α, rd a ((y.length : ℤ) - 1 - 3) = av a q :=
          fun a => rd_of_eq a _ _ (by omega)
        rw [Rw_d_succ2, diagCoef_penult _ _ (by omega) (by omega)]
        simp (config := {zetaDelta := true}) (disch := omega) only [List.size_toArray, rm, rm1, rm2,
          rm3, av_toArray, HD.get, HC.get, HE.get, nat, Nat.cast_ofNat]
        row_arith)
    have uc := wr_upd (a := c1) rfl (q + 1)
      (by simp (config := {zetaDelta := true}) only [List.size_toArray]; omega)
      (by rw [HC.size]; omega)
    clear_value c1
    have Hc := HC.step uc (by
      rw [Rw_c_succ, supCoef_penult _ _ (by omega)]
      simp (config := {zetaDelta := true}) (disch := omega) only [List.size_toArray, rm, rm1, rm2,
        Hd.get, HC.get, HE.get, nat, Nat.cast_ofNat]
      row_arith)
    have uz := wr_upd (a := z1) rfl (q + 1)
      (by simp (config := {zetaDelta := true}) only [List.size_toArray]; omega)
      (by rw [HU.size]; omega)
    clear_value z1
    have Hz := HU.step uz (by
      rcases q with _ | q
      · have re := rd_wrap_zero hF.he.size hF.ze ((y.length : ℤ) - 1 - 3) 2 (by omega) (by omega)
          hK.2
        rw [Rw_u_one]
        simp (config := {zetaDelta := true}) (disch := omega) only [List.size_toArray, rm, rm1, rm2,
          re, av_toArray, Hc.get, HE.get, HU.get]
        row_arith
      · have rm3 : ∀ a : Array α, rd a ((y.length : ℤ) - 1 - 3) = av a q :=
          fun a => rd_of_eq a _ _ (by omega)
        rw [Rw_u_succ2]
        simp (config := {zetaDelta := true}) (disch := omega) only [List.size_toArray, rm, rm1, rm2,
          rm3, av_toArray, Hc.get, HE.get, HU.get]
        row_arith)
    -- row m
    have ud2 := wr_upd (a := d2) rfl (q + 2)
      (by simp (config := {zetaDelta := true}) only [List.size_toArray]; omega)
      (by rw [Hd.size]; omega)
    clear_value d2
    have Hd2 := Hd.step ud2 (by
      rw [Rw_d_succ2, diagCoef_last _ _ (by omega)]
      simp (config := {zetaDelta := true}) (disch := omega) only [List.size_toArray, rm, rm1, rm2,
        av_toArray, Hd.get, Hc.get, HE.get, nat, Nat.cast_one, one_mul]
      row_arith)
    have uz2 := wr_upd (a := z2) rfl (q + 2)
      (by simp (config := {zetaDelta := true}) only [List.size_toArray]; omega)
      (by rw [Hz.size]; omega)
    clear_value z2
    have B2 : Bwd y w lam (q + 2) z2 :=
      Bwd.step Hz.size (fun j h1 h2 => by omega) Hz.get uz2 (by
        rw [X_rel y w lam h _ (by omega), X_out y w lam h _ (by omega),
          X_out y w lam h _ (by omega), Rw_u_succ2]
        simp (config := {zetaDelta := true}) (disch := omega) only [List.size_toArray, rm, rm1, rm2,
          av_toArray, Hd2.get, Hc.get, HE.get, Hz.get]
        row_arith)
    have uz3 := wr_upd (a := z3) rfl (q + 1)
      (by simp (config := {zetaDelta := true}) only [List.size_toArray]; omega)
      (by rw [B2.sz]; omega)
    clear_value z3
    have B3 : Bwd y w lam (q + 1) z3 :=
      Bwd.step B2.sz (fun j h1 h2 => B2.hx j (by omega) h2) (fun j hj => B2.hu j (by omega)) uz3 (by
        rw [X_rel y w lam h _ (by omega), X_out y w lam h (q + 1 + 2) (by omega)]
        simp (config := {zetaDelta := true}) (disch := omega) only [List.size_toArray, rm, rm1, rm2,
          Hd2.get, Hc.get, B2.hu, B2.hx]
        row_arith)
    exact B3.cast (by simp only [List.length_nil]; omega)
  -- the backward loop preserves it
  case vc3.step =>
    obtain ⟨q, hq⟩ : ∃ q, y.length = q + 3 := ⟨y.length - 3, by omega⟩
    py_name z as z'; py_name b as b; py_name pref as pref; py_name cur as cur
    py_name z as z3; py_name z as z2; py_name d as d2; py_name z as z1; py_name c as c1
    py_name d as d1
    have hF := ‹Fwd y w lam _ _ _ _ _›
    have hK : q + 1 ≤ (pyRange 2 ((y.length : ℤ) - 1 - 1)).length + 2 := by
      simp only [pyRange_length]; omega
    simp (config := {zetaDelta := true}) only [List.size_toArray] at hF
    have HD := hF.hd.mono hK
    have HC := hF.hc.mono (k' := q + 1) (by omega)
    have HE := hF.he.mono hK
    have hB0 := ‹Bwd y w lam _ b›
    obtain ⟨hcur, hlt⟩ := pyRangeDown_split _ _ _ _ _ ‹pyRangeDown _ _ = _ ++ _ :: _›
    simp (config := {zetaDelta := true}) only [List.size_toArray] at hcur hlt
    simp only [List.length_append, List.length_singleton]
    generalize pref.length = p at *
    obtain ⟨t, ht⟩ : ∃ t : ℕ, cur = (t : ℤ) := ⟨cur.toNat, by omega⟩
    have hB := hB0.cast (t' := t + 1) (by omega)
    have r0 : ∀ a : Array α, rd a cur = av a t := fun a => rd_of_eq a _ _ (by omega)
    have r1 : ∀ a : Array α, rd a (cur + 1) = av a (t + 1) := fun a => rd_of_eq a _ _ (by omega)
    have r2 : ∀ a : Array α, rd a (cur + 2) = av a (t + 2) := fun a => rd_of_eq a _ _ (by omega)
    -- the tail rows only touched cells `m - 1` and `m`
    have ud := wr_upd (a := d1) rfl (q + 1)
      (by simp (config := {zetaDelta := true}) only [List.size_toArray]; omega)
      (by rw [HD.size]; omega)
    clear_value d1
    have uc := wr_upd (a := c1) rfl (q + 1)
      (by simp (config := {zetaDelta := true}) only [List.size_toArray]; omega)
      (by rw [HC.size]; omega)
    clear_value c1
    have ud2 := wr_upd (a := d2) rfl (q + 2)
      (by simp (config := {zetaDelta := true}) only [List.size_toArray]; omega)
      (by rw [ud.size, HD.size]; omega)
    clear_value d2
    have Hd := (HD.keep ud (le_refl _)).keep ud2 (by omega)
    have Hc := HC.keep uc (le_refl _)
    clear_value z3
    have uz := wr_upd (a := z') rfl t (by omega) (by rw [hB.sz]; omega)
    clear_value z'
    exact (Bwd.step hB.sz (fun j h1 h2 => hB.hx j (by omega) h2) (fun j hj => hB.hu j (by omega)) uz
      (by
        rw [X_rel y w lam h _ (by omega)]
        simp (config := {zetaDelta := true}) (disch := omega) only [r0, r1, r2, Hd.get, Hc.get,
          HE.get, hB.hu, hB.hx]
        row_arith)).cast (by omega)
  -- at the end of the backward loop every cell holds the output of the model
  case vc5.post.success.post.success =>
    have hB := ‹Bwd y w lam _ _›
    exact (hB.cast (by
      simp (config := {zetaDelta := true}) only [pyRangeDown_length, List.size_toArray]
      omega)).toList_eq h

/-- The translated source returns an array of the length of its input (any lengths, any carrier:
    every assignment is an in-place `wr`). -/
theorem gen_ws2d_size_array {α : Type} [Add α] [Sub α] [Mul α] [Div α] [Neg α] [NatCast α]
    (y w : Array α) (lam : α) : (Hdc.Gen.Ws2d.ws2d y lam w).size = y.size := by
  generalize hr : Hdc.Gen.Ws2d.ws2d y lam w = r
  apply Id.of_wp_run_eq hr
  mvcgen invariants
  · ⇓⟨_, s⟩ => ⌜s.2.2.1.size = y.size⌝
  · ⇓⟨_, z⟩ => ⌜z.size = y.size⌝
  all_goals
    simp (config := {zetaDelta := true}) only [size_wr, Array.size_replicate, Int.toNat_natCast] at *
  all_goals assumption

theorem gen_ws2d_size {α : Type} [Field α] (y w : List α) (lam : α) :
    (Hdc.Gen.Ws2d.ws2d y.toArray lam w.toArray).size = y.length := by
  rw [gen_ws2d_size_array, List.size_toArray]

/-! ### The translated source itself returns the exact penalised least-squares solution -/

section C01
variable {α : Type} [Field α] [LinearOrder α] [IsStrictOrderedRing α] {y w : List α} {lam : α}

/-- the output of the translated source satisfies the normal equations `(W + λ DᵀD) z = W y` -/
theorem gen_ws2d_normal_eq (h : C01.InContract y w lam) :
    C01.NormalEq y.length (C01.fn y) (C01.fn w) lam
      (C01.fn (Hdc.Gen.Ws2d.ws2d y.toArray lam w.toArray).toList) := by
  rw [gen_ws2d_eq_model y w lam h.wlen (by have := h.len; omega)]
  exact C01.ws2d_normal_eq h

/-- it is the only solution of the normal equations -/
theorem gen_ws2d_unique (h : C01.InContract y w lam) (z : ℕ → α)
    (hz : C01.NormalEq y.length (C01.fn y) (C01.fn w) lam z) :
    ∀ i < y.length, z i = C01.fn (Hdc.Gen.Ws2d.ws2d y.toArray lam w.toArray).toList i := by
  rw [gen_ws2d_eq_model y w lam h.wlen (by have := h.len; omega)]
  exact C01.ws2d_unique h z hz

/-- it minimises the penalised least-squares functional -/
theorem gen_ws2d_minimises (h : C01.InContract y w lam) (z : ℕ → α) :
    C01.PLS y.length (C01.fn y) (C01.fn w) lam
        (C01.fn (Hdc.Gen.Ws2d.ws2d y.toArray lam w.toArray).toList)
      ≤ C01.PLS y.length (C01.fn y) (C01.fn w) lam z := by
  rw [gen_ws2d_eq_model y w lam h.wlen (by have := h.len; omega)]
  exact C01.ws2d_minimises h z

/-- and it is the unique minimiser -/
theorem gen_ws2d_unique_minimiser (h : C01.InContract y w lam) (z : ℕ → α)
    (hz : C01.PLS y.length (C01.fn y) (C01.fn w) lam z
      ≤ C01.PLS y.length (C01.fn y) (C01.fn w) lam
          (C01.fn (Hdc.Gen.Ws2d.ws2d y.toArray lam w.toArray).toList)) :
    ∀ i < y.length, z i = C01.fn (Hdc.Gen.Ws2d.ws2d y.toArray lam w.toArray).toList i := by
  rw [gen_ws2d_eq_model y w lam h.wlen (by have := h.len; omega)] at hz ⊢
  exact C01.ws2d_minimiser_unique h z hz

end C01

/-! ### Non-vacuity: a concrete instance (ℚ, n = 5, one zero weight, λ = 10) -/

/-- the hypotheses of `gen_ws2d_eq_model` are satisfiable and the translated source returns this
    concrete vector (the same value `#eval` prints for `Gen.Ws2d.ws2d` at `Rat`) -/
example : (Hdc.Gen.Ws2d.ws2d [1, 2, 4, 3, 5].toArray (10 : ℚ) [1, 1, 0, 1, 1].toArray).toList
    = [2113 / 2193, 4036 / 2193, 117 / 43, 7949 / 2193, 10025 / 2193] := by
  rw [gen_ws2d_eq_model [1, 2, 4, 3, 5] [1, 1, 0, 1, 1] (10 : ℚ) rfl (by decide)]
  norm_num [Hdc.ws2d, ws2dRows, fwd, fwdRow, back, diagCoef, supCoef, nat]

/-- the smallest covered length, n = 3 (here the source reads one wrapped-around cell, `i2 = -1`,
    and overwrites row 1; at n = 2 the source and the model differ, `#eval` shows it) -/
example : (Hdc.Gen.Ws2d.ws2d [1, 2, 4].toArray (10 : ℚ) [1, 1, 0].toArray).toList
    = [1, 2 / 11, -7 / 11] := by
  rw [gen_ws2d_eq_model [1, 2, 4] [1, 1, 0] (10 : ℚ) rfl (by decide)]
  norm_num [Hdc.ws2d, ws2dRows, fwd, fwdRow, back, diagCoef, supCoef, nat]

/-- the contract of the corollaries holds for this instance -/
example : C01.InContract (α := ℚ) [1, 2, 4, 3, 5] [1, 1, 0, 1, 1] 10 where
  len := by decide
  wlen := by decide
  lam_pos := by norm_num
  w_nonneg := by
    intro x hx
    simp only [List.mem_cons, List.not_mem_nil, or_false] at hx
    rcases hx with rfl | rfl | rfl | rfl | rfl <;> norm_num
  two_pos := ⟨0, 1, by decide, by decide, by norm_num [C01.fn], by norm_num [C01.fn]⟩

end Hdc.C01gen
