import Hdc.Gen.GlueSpi
import Hdc.Props.GenGlueCalIndices
import Hdc.Lemmas.GenGlueSpi
/-
GenGlueSpi  The GENERATED translation of the accessor `PixelAlgorithms.spi` (Hdc/Gen/GlueSpi.lean; two variants: `groups`
absent / given) validates the calibration window exactly like the hand models `Hdc.spiWindow` / `Hdc.spiWindowGrp`, hands the
model's indices to the kernel call and records the model's `spiAttrs`.
-/
namespace Hdc.GenGlue
open Hdc Hdc.PyGlue Hdc.Gen.Glue

set_option linter.unusedSimpArgs false
set_option linter.unusedVariables false

section
variable {V Res : Type}

/-- the accessor's result in terms of the models: rejected windows raise ValueError, an accepted window `(i, j)` goes to the
    kernel call `K i j` and the attributes `spiAttrs` are recorded by `A` -/
def spiResult (K : Nat → Nat → Res) (A : Res → Int → Int → Res) (tix : List Int) (cb ce : Option Int) : Except Exc Res :=
  match spiWindow tix cb ce with
  | .error _ => .error .valueError
  | .ok (i, j) =>
    match spiAttrs tix (C09.beginOf tix cb) (C09.endOf tix ce) with
    | (some a, some b) => .ok (A (K i j) a b)
    | _ => .error .indexError

theorem gen_spi_eq_model (an : Option V) (tix : List Int) (dt : Option Int → Int)
    (ss : List Int → Int → String → Except Exc Int) (ap : Option V → Int → Int → Res) (au : Res → Int → Int → Res)
    (cb ce : Option Int) (nd : Option V)
    (hasc : C09.Ascending tix) (hne : tix ≠ []) (hss : SearchsortedSpec ss) (hdt : ∀ t, dt (some t) = t)
    (hnd : (nd.orElse fun _ => an).isSome) :
    spi true an tix dt ss ap au cb ce nd
      = spiResult (fun i j => ap (nd.orElse fun _ => an) i j) au tix cb ce := by
  obtain ⟨t0, ts, rfl⟩ : ∃ t0 ts, tix = t0 :: ts := by
    cases tix with
    | nil => exact absurd rfl hne
    | cons a l => exact ⟨a, l, rfl⟩
  have hl : (t0 :: ts).getLast? = some ((t0 :: ts).getLast (by simp)) := List.getLast?_eq_some_getLast _
  generalize (t0 :: ts).getLast (by simp) = tl at hl
  unfold spi
  have hcal := fun b e => gen_cal_indices_eq_model dt ss (t0 :: ts) (some b) (some e) none hasc hss
  simp only [hdt] at hcal
  have hnd' : ∃ v, (nd.orElse fun _ => an) = some v := Option.isSome_iff_exists.mp hnd
  obtain ⟨v, hv⟩ := hnd'
  rcases nd with _ | v' <;> rcases an with _ | w <;> simp at hv
  all_goals subst hv
  all_goals rcases cb with _ | b <;> rcases ce with _ | e
  all_goals glue_eval
  all_goals simp only [getItem_zero, getItem_neg_one, slice_last, slice_first, hl, List.head?_cons, truthArr_single, hcal,
    maskSelect_map]
  all_goals simp only [List.map_cons, List.map_nil, truthArr_single]
  all_goals glue_eval
  all_goals simp only [spiResult, spiWindow, hl, List.head?_cons, C09.beginOf, C09.endOf, Option.getD_some, Option.getD_none,
    List.headD_cons, List.getLastD_eq_getLast?]
  all_goals simp only [spiAttrs, ge_iff_le, gt_iff_lt, decide_eq_true_eq, Nat.cast_le]
  all_goals generalize calIndices (t0 :: ts) _ _ = ij
  all_goals obtain ⟨i, j⟩ := ij
  all_goals generalize (List.filter _ (t0 :: ts)).head? = oa
  all_goals generalize (List.filter _ (t0 :: ts)).getLast? = ob
  all_goals simp only
  all_goals split_ifs <;> first
    | rfl
    | (exfalso; simp only [pyAbs] at *; split_ifs at * <;> omega)
    | (rcases oa with _ | a <;> rcases ob with _ | b' <;> rfl)


/-- the accessor's result with groups: `K` gets the table of the per-group windows -/
def spiResultGrp (K : List (List Int) → Res) (A : Res → Int → Int → Res) (tix : List Int) (groups : List Nat) (k : Nat)
    (cb ce : Option Int) : Except Exc Res :=
  match spiWindowGrp tix groups k cb ce with
  | .error _ => .error .valueError
  | .ok ws =>
    match spiAttrs tix (C09.beginOf tix cb) (C09.endOf tix ce) with
    | (some a, some b) => .ok (A (K (rowsOf ws)) a b)
    | _ => .error .indexError

theorem gen_spi_grp_eq_model {Grp Key : Type} (an : Option V) (tix : List Int) (tls : Grp → List Int × List Key)
    (lt : Int) (a16 : List Int → List Int) (dt : Option Int → Int)
    (ss : List Int → Int → String → Except Exc Int) (ul : List Int → Int)
    (arr16 : List (List Int) → Except Exc (List (List Int)))
    (apg : List Int → Int → Option V → List (List Int) → Res) (au : Res → Int → Int → Res)
    (cb ce : Option Int) (nd : Option V) (g : Grp) (groups : List Nat) (keys : List Key)
    (hasc : C09.Ascending tix) (hne : tix ≠ []) (hss : SearchsortedSpec ss) (hdt : ∀ t, dt (some t) = t)
    (hnd : (nd.orElse fun _ => an).isSome)
    (hlin : tls g = (groups.map Int.ofNat, keys)) (hlt : lt = tix.length)
    (ha16 : a16 (groups.map Int.ofNat) = groups.map Int.ofNat)
    (h16 : Int16TableSpec arr16) (hlen : groups.length = tix.length) (hsmall : tix.length ≤ 32767) :
    spi_grp true an tix tls lt a16 dt ss ul arr16 apg au cb ce nd g
      = spiResultGrp (fun t => apg (groups.map Int.ofNat) keys.length (nd.orElse fun _ => an) t) au tix groups keys.length
          cb ce := by
  obtain ⟨t0, ts, rfl⟩ : ∃ t0 ts, tix = t0 :: ts := by
    cases tix with
    | nil => exact absurd rfl hne
    | cons a l => exact ⟨a, l, rfl⟩
  have hl : (t0 :: ts).getLast? = some ((t0 :: ts).getLast (by simp)) := List.getLast?_eq_some_getLast _
  generalize (t0 :: ts).getLast (by simp) = tl at hl
  unfold spi_grp
  have hcal : ∀ b e, get_calibration_indices_grp dt ss ul arr16 (t0 :: ts) (some b, some e) (groups.map Int.ofNat)
      (some (keys.length : Int)) = .ok (rowsOf (calIndicesGrp (t0 :: ts) groups keys.length b e)) := by
    intro b e
    have := gen_cal_indices_grp_eq_model dt ss ul arr16 (t0 :: ts) (some b) (some e) groups (some keys.length)
      keys.length hasc hss h16 hlen hsmall rfl (by intro h; cases h)
    simp only [hdt, Option.map_some, Int.ofNat_eq_natCast] at this
    exact this
  obtain ⟨v, hv⟩ := Option.isSome_iff_exists.mp hnd
  rcases nd with _ | v' <;> rcases an with _ | w <;> simp at hv
  all_goals subst hv
  all_goals rcases cb with _ | b <;> rcases ce with _ | e
  all_goals glue_eval
  all_goals simp only [getItem_zero, getItem_neg_one, slice_last, slice_first, hl, List.head?_cons, truthArr_single,
    maskSelect_map, hlin, ha16, hlt, len, List.length_map, hlen]
  all_goals simp only [List.map_cons, List.map_nil, truthArr_single]
  all_goals glue_eval
  all_goals simp only [List.length_cons, not_true_eq_false, decide_false, Bool.false_eq_true, if_false, hcal, ok_bind,
    npCol_rows0, npCol_rows1, zipWithArr_map, any_reversed_rows]
  all_goals simp only [spiResultGrp, spiWindowGrp, hl, List.head?_cons, C09.beginOf, C09.endOf, Option.getD_some,
    Option.getD_none, List.headD_cons, List.getLastD_eq_getLast?]
  all_goals simp only [spiAttrs, ge_iff_le, gt_iff_lt, decide_eq_true_eq]
  all_goals generalize calIndicesGrp (t0 :: ts) groups keys.length _ _ = ws
  all_goals
    by_cases c1 : (ws.any fun (i, j) => decide (j ≤ i)) = true
    · simp only [c1, if_true]
      split_ifs <;> rfl
    · have c1' : (ws.any fun (i, j) => decide (j ≤ i)) = false := by simpa using c1
      rw [any_short_rows ws c1']
      simp only [c1', Bool.false_eq_true, if_false]
      split_ifs <;> first
        | rfl
        | (generalize (List.filter _ (t0 :: ts)).head? = oa
           generalize (List.filter _ (t0 :: ts)).getLast? = ob
           rcases oa with _ | a <;> rcases ob with _ | b' <;> rfl)


/-! ### the other outcomes -/

/-- no time dimension: MissingTimeError -/
theorem gen_spi_no_timedim (an : Option V) (tix : List Int) (dt : Option Int → Int)
    (ss : List Int → Int → String → Except Exc Int) (ap : Option V → Int → Int → Res) (au : Res → Int → Int → Res)
    (cb ce : Option Int) (nd : Option V) :
    spi false an tix dt ss ap au cb ce nd = .error .missingTimeError := by
  unfold spi; glue_eval; rfl

/-- neither the `nodata` argument nor the attribute: ValueError.  (`gen_spi_eq_model` shows the precedence: the argument when
    given, else the attribute - `nd.orElse fun _ => an`.) -/
theorem gen_spi_no_nodata (tix : List Int) (dt : Option Int → Int)
    (ss : List Int → Int → String → Except Exc Int) (ap : Option V → Int → Int → Res) (au : Res → Int → Int → Res)
    (cb ce : Option Int) :
    spi true none tix dt ss ap au cb ce none = .error .valueError := by
  unfold spi; glue_eval; rfl

/-- an EMPTY axis with a defaulted bound: the source raises IndexError (`tix[0]`) where the model `spiWindow [] _ _` says
    ValueError - the kind of the exception differs (both reject).  With both bounds given the source raises ValueError (the
    truth value of an empty comparison), like the model. -/
theorem gen_spi_empty_axis_default (an : Option V) (dt : Option Int → Int)
    (ss : List Int → Int → String → Except Exc Int) (ap : Option V → Int → Int → Res) (au : Res → Int → Int → Res)
    (ce : Option Int) (v : V) :
    spi true an [] dt ss ap au none ce (some v) = .error .indexError := by
  unfold spi; glue_eval; rfl

theorem gen_spi_empty_axis_given (an : Option V) (dt : Option Int → Int)
    (ss : List Int → Int → String → Except Exc Int) (ap : Option V → Int → Int → Res) (au : Res → Int → Int → Res)
    (b e : Int) (v : V) :
    spi true an [] dt ss ap au (some b) (some e) (some v) = .error .valueError := by
  unfold spi; glue_eval; rfl

/-- with groups: a label array of another length than the axis is rejected -/
theorem gen_spi_grp_length_mismatch {Grp Key : Type} (an : Option V) (tix : List Int) (tls : Grp → List Int × List Key)
    (lt : Int) (a16 : List Int → List Int) (dt : Option Int → Int)
    (ss : List Int → Int → String → Except Exc Int) (ul : List Int → Int)
    (arr16 : List (List Int) → Except Exc (List (List Int)))
    (apg : List Int → Int → Option V → List (List Int) → Res) (au : Res → Int → Int → Res)
    (b e : Int) (v : V) (g : Grp) (t0 : Int) (ts : List Int) (htix : tix = t0 :: ts)
    (h1 : ¬ (t0 :: ts).getLast (by simp) < b) (h2 : ¬ e < t0)
    (hlt : lt = tix.length) (hlen : ((tls g).1.length : Int) ≠ lt) :
    spi_grp true an tix tls lt a16 dt ss ul arr16 apg au (some b) (some e) (some v) g = .error .valueError := by
  subst htix
  have hl : (t0 :: ts).getLast? = some ((t0 :: ts).getLast (by simp)) := List.getLast?_eq_some_getLast _
  generalize (t0 :: ts).getLast (by simp) = tl at hl h1
  unfold spi_grp
  glue_eval
  simp only [slice_last, slice_first, hl, List.head?_cons, List.map_cons, List.map_nil, truthArr_single, gt_iff_lt,
    decide_eq_true_eq, h1, h2, if_false, len, hlen, not_false_eq_true, if_true]
  glue_eval
  simp only [gt_iff_lt, decide_eq_true_eq, h1, h2, if_false, len, hlen, not_false_eq_true, if_true, decide_true, decide_false,
    Bool.false_eq_true]
  rfl

/-! ### C09 read off the translated accessor -/

theorem spiWindow_bounds (t0 : Int) (ts : List Int) (cb ce : Option Int) :
    spiWindow (t0 :: ts) cb ce
      = spiWindow (t0 :: ts) (some (C09.beginOf (t0 :: ts) cb)) (some (C09.endOf (t0 :: ts) ce)) := by
  have hl : (t0 :: ts).getLast? = some ((t0 :: ts).getLast (by simp)) := List.getLast?_eq_some_getLast _
  simp only [spiWindow, hl, List.head?_cons, C09.beginOf, C09.endOf, Option.getD_some, List.headD_cons,
    List.getLastD_eq_getLast?]

/-- the accessor (no groups) rejects with ValueError exactly the windows that hold fewer than two steps; an accepted window
    `(i, j)` is the model's, it goes to the kernel, and the recorded attributes are the first and the last step inside it -/
theorem gen_spi_spec (an : Option V) (tix : List Int) (dt : Option Int → Int)
    (ss : List Int → Int → String → Except Exc Int) (ap : Option V → Int → Int → Res) (au : Res → Int → Int → Res)
    (cb ce : Option Int) (nd : Option V)
    (hasc : C09.Ascending tix) (hne : tix ≠ []) (hss : SearchsortedSpec ss) (hdt : ∀ t, dt (some t) = t)
    (hnd : (nd.orElse fun _ => an).isSome) :
    ((C09.windowSteps tix (C09.beginOf tix cb) (C09.endOf tix ce)).length < 2 →
      spi true an tix dt ss ap au cb ce nd = .error .valueError) ∧
    (¬ (C09.windowSteps tix (C09.beginOf tix cb) (C09.endOf tix ce)).length < 2 →
      ∃ (i j : Nat) (hi : i < tix.length) (hj : j - 1 < tix.length),
        (i, j) = calIndices tix (C09.beginOf tix cb) (C09.endOf tix ce) ∧ 2 ≤ j - i ∧
        spi true an tix dt ss ap au cb ce nd = .ok (au (ap (nd.orElse fun _ => an) i j) tix[i] tix[j - 1])) := by
  rw [gen_spi_eq_model an tix dt ss ap au cb ce nd hasc hne hss hdt hnd]
  obtain ⟨t0, ts, rfl⟩ : ∃ t0 ts, tix = t0 :: ts := by
    cases tix with
    | nil => exact absurd rfl hne
    | cons a l => exact ⟨a, l, rfl⟩
  have hspec := C09.spiWindow_spec (t0 :: ts) hasc cb ce
  constructor
  · intro hlt
    rw [if_pos hlt] at hspec
    simp only [spiResult, hspec]
  · intro hge
    rw [if_neg hge] at hspec
    generalize hij : calIndices (t0 :: ts) (C09.beginOf (t0 :: ts) cb) (C09.endOf (t0 :: ts) ce) = ij at hspec
    obtain ⟨i, j⟩ := ij
    have hok := hspec
    rw [spiWindow_bounds] at hok
    obtain ⟨hi, hj, hattr, _, _, _⟩ := C09.spiAttrs_spec (t0 :: ts) hasc _ _ i j hok
    obtain ⟨_, h2, _⟩ := C09.spiWindow_ok (t0 :: ts) hasc cb ce i j hspec
    refine ⟨i, j, hi, hj, rfl, h2, ?_⟩
    simp only [spiResult, hspec, hattr]

end

/-! ### Non-vacuity -/

example : spi (V := Int) (Res := (Option Int × Int × Int) × Int × Int) true (some (-9999)) [1, 3, 5, 7, 9]
    (fun o => o.getD 0) ssEx (fun nd a b => ((nd, a, b), 0, 0)) (fun r a b => (r.1, a, b)) (some 2) (some 8) none
    = .ok ((some (-9999), 1, 4), 3, 7) :=
  (gen_spi_eq_model (some (-9999)) [1, 3, 5, 7, 9] (fun o => o.getD 0) ssEx _ _ (some 2) (some 8) none
    (by unfold C09.Ascending; decide) (by decide) ssEx_spec (fun _ => rfl) rfl).trans (by decide)

/-- a one-step window is rejected -/
example : spi (V := Int) (Res := (Option Int × Int × Int) × Int × Int) true (some (-9999)) [1, 3, 5, 7, 9]
    (fun o => o.getD 0) ssEx (fun nd a b => ((nd, a, b), 0, 0)) (fun r a b => (r.1, a, b)) (some 4) (some 6) (some 0)
    = .error .valueError :=
  (gen_spi_eq_model (some (-9999)) [1, 3, 5, 7, 9] (fun o => o.getD 0) ssEx _ _ (some 4) (some 6) (some 0)
    (by unfold C09.Ascending; decide) (by decide) ssEx_spec (fun _ => rfl) rfl).trans (by decide)

/-- two groups of three steps -/
example : spi_grp (V := Int) (Grp := Unit) (Key := Nat) (Res := List (List Int) × Int × Int) true none [1, 2, 3, 4, 5, 6]
    (fun _ => ([0, 1, 0, 1, 0, 1], [0, 1])) 6 id (fun o => o.getD 0) ssEx (fun _ => 2) arr16Ex
    (fun _ _ _ t => (t, 0, 0)) (fun r a b => (r.1, a, b)) none none (some 0) ()
    = .ok ([[0, 3], [0, 3]], 1, 6) :=
  (gen_spi_grp_eq_model (Key := Nat) none [1, 2, 3, 4, 5, 6] (fun _ => ([0, 1, 0, 1, 0, 1], [0, 1])) 6 id (fun o => o.getD 0)
    ssEx (fun _ => 2) arr16Ex _ _ none none (some 0) () [0, 1, 0, 1, 0, 1] [0, 1]
    (by unfold C09.Ascending; decide) (by decide) ssEx_spec (fun _ => rfl) rfl rfl rfl rfl arr16Ex_spec rfl
    (by decide)).trans (by decide)

end Hdc.GenGlue
