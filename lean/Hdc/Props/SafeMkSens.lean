import Hdc.Gen.SafeMkSens
import Hdc.Gen.NumMkSens
import Hdc.Lemmas.SafeMk
import Mathlib.Algebra.Order.Ring.Rat
import Std.Tactic.Do
/-
SafeMkSens  Safety of `hdc/algo/ops/stats.py::mk_sens_slope`, proved FROM THE SOURCE: `Hdc.Gen.Safe.mk_sens_slope`
(Hdc/Gen/SafeMkSens.lean, written by harness/py2lean_stats.py, class `SafeKN`) is the statement-by-statement translation plus
the flag `bad`, set by
    `negLen nd`                       the allocation `d = np.ones(nd)`, `nd = int(n * (n - 1) / 2)` (ValueError when negative)
    `oob x.size j`, `oob x.size i`    the subscripts `x[j]`, `x[i]` of `d[ix] = (x[j] - x[i]) / (j - i)`
    `decide (j - i = 0)`              the scalar division by the Python int `j - i`
    `oob d.size ix`                   the store `d[ix] = ..` with the running index `ix`
(no check: `/ 2` by a literal; `np.nanmedian(d)`, `np.nanmedian(x)`: total, NaN + a warning on an empty array.)

  safe_mk_sens_slope_fst   (Safe.mk_sens_slope x).1 = Gen.NumKernels.mk_sens_slope x      every carrier, every input
  safe_mk_sens_slope_ok    the flag is false for EVERY input, over the bare operator classes: NO contract.  The loops
                           `for i in range(n - 1): for j in range(i + 1, n)` give `0 <= i < j < n`, and they make exactly
                           `n (n - 1) / 2` steps: the invariant `SafeMk.CInv` counts the pairs still to come
                           (`ix + (pairs left in row i) + tri (n - (i + 1)) = tri n = len d`), so `ix < len d` at every store.
  `example`s               concrete rational series (also the empty one and a single cell, where no loop body runs)
-/
namespace Hdc.SafeMkSens
open Hdc Hdc.Gen.NumKernels Hdc.GenNum Hdc.SafeL Hdc.SafeSimN Hdc.PyNpT Hdc.SafeMk Std.Do

set_option mvcgen.warning false
set_option linter.unusedSimpArgs false
set_option linter.unusedTactic false
set_option linter.unreachableTactic false
set_option linter.unusedSectionVars false

/-- (i) the instrumented program is the translated source plus a flag -/
theorem safe_mk_sens_slope_fst {α : Type} [Add α] [Sub α] [Mul α] [Div α] [Neg α] [NatCast α] [LT α] [DecidableLT α]
    [IntCast α] (x : Array α) :
    (Gen.Safe.mk_sens_slope x).1 = Gen.NumKernels.mk_sens_slope x := by
  unfold Gen.Safe.mk_sens_slope Gen.NumKernels.mk_sens_slope
  safe_sim

/-- (ii) the flag is false: for every series (no hypothesis) no subscript leaves its array, the buffer length is not
    negative and no divisor `j - i` is zero -/
theorem safe_mk_sens_slope_ok {α : Type} [Add α] [Sub α] [Mul α] [Div α] [Neg α] [NatCast α] [LT α] [DecidableLT α]
    [IntCast α] (x : Array α) :
    (Gen.Safe.mk_sens_slope x).2 = false := by
  generalize hres : Gen.Safe.mk_sens_slope x = res
  apply Id.of_wp_run_eq hres
  mvcgen invariants
  · ⇓⟨xs, s⟩ => ⌜s.1 = false ∧ CInv x.size (x.size - xs.prefix.length) 0 s.2.2.size s.2.1⌝
  · ⇓⟨xs, s⟩ => by
      py_name cur as i
      exact ⌜s.1 = false ∧ CInv x.size (x.size - (i.toNat + 1)) ((x.size : ℤ) - (i + 1) - (xs.prefix.length : ℤ)) s.2.2.size s.2.1⌝
  all_goals
    pyn_ranges
    simp (config := {zetaDelta := true}) only [List.length_append, List.length_singleton, List.length_nil,
      pyRange_length, size_wr, Bool.false_or, Bool.or_eq_false_iff, oob_eq_false_iff, decide_eq_false_iff_not] at *
  all_goals first
    -- `d = np.ones(nd)`
    | exact ⟨negLen_nd _, CInv.init _ _⟩
    -- after the loops
    | exact (‹_ = false ∧ CInv _ _ _ _ _›).1
    -- `d[ix] = (x[j] - x[i]) / (j - i); ix += 1`: `0 <= i < j < n`, `ix` inside `d` while a pair of the row is to come
    | (obtain ⟨hb, hc⟩ := ‹_ = false ∧ CInv _ _ _ _ _›
       have hlt := hc.lt (by omega)
       exact ⟨by refine ⟨⟨⟨⟨hb, ?_⟩, ?_⟩, ?_⟩, ?_⟩ <;> omega, hc.step (by omega) (by omega) rfl⟩)
    -- entry / exit of the inner loop
    | exact ⟨(‹_ = false ∧ CInv _ _ _ _ _›).1, ((‹_ = false ∧ CInv _ _ _ _ _›).2.enter (by omega)).cast (by omega) (by omega) rfl⟩
    | exact ⟨(‹_ = false ∧ CInv _ _ _ _ _›).1, (‹_ = false ∧ CInv _ _ _ _ _›).2.cast (by omega) (by omega) rfl⟩

/-! ### Non-vacuity (ℚ).  There is no contract hypothesis, hence no input with the flag set; that the checks are live is
shown by the source mutations of the report (each one makes `safe_mk_sens_slope_ok` fail). -/

example : (Gen.Safe.mk_sens_slope (#[1, 3, 2, 6] : Array ℚ)).2 = false := safe_mk_sens_slope_ok _
/-- the same by evaluation; the empty series and a single cell: `nd = 0`, no loop body runs -/
example : (Gen.Safe.mk_sens_slope (#[1, 3, 2, 6] : Array ℚ)).2 = false := by decide +kernel
example : (Gen.Safe.mk_sens_slope (#[] : Array ℚ)).2 = false := by decide +kernel
example : (Gen.Safe.mk_sens_slope (#[7] : Array ℚ)).2 = false := by decide +kernel
/-- the predicates themselves: one cell too few / a negative length would be flagged -/
example : oob 6 6 = true ∧ oob 6 (-7) = true ∧ oob 6 5 = false ∧ oob 6 (-6) = false := by decide
example : negLen (-1) = true ∧ negLen 0 = false := by decide

end Hdc.SafeMkSens
