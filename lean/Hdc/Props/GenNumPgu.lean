import Hdc.Lemmas.GenNumFixed
import Hdc.Gen.NumWs2dpgu
import Std.Tactic.Do
import Mathlib.Tactic.NormNum
/-
GenNumPgu  The GENERATED translation of `hdc/algo/ops/ws2dpgu.py::ws2dpgu` (Hdc/Gen/NumWs2dpgu.lean, written by
harness/py2lean_fixed.py from the current Python source: an `Id.run do` program over an abstract carrier, its
NumPy vector expressions composed from the combinators of Hdc/PyNpF.lean) computes the hand model `Hdc.pgu`
(`irls`: at most 10 re-weighting passes from the zero curve, early `break` when a pass reproduces the curve;
then one more fit with the last weights).

  gen_ws2dpgu_eq_model     = (curve of `Hdc.pgu`).map rnd  /  the input (pass-through), for all inputs
  gen_ws2dpgu_some, gen_ws2dpgu_none, gen_ws2dpgu_size     corollaries

Method: `mvcgen` with one invariant for the `for _ in range(10): … break` loop (`PInv`, Hdc/Lemmas/GenNumFixed.lean:
"the model's loop, continued from the current curve with the remaining fuel, returns the model's result"; a
`break` lands on the end of the range).  In every verification condition the source assignments are local
definitions; `PyNpF.*_eq` turns each combinator into the list operation it stands for (the size side
conditions of the in-place idioms are discharged from the invariant), and the lemmas of
Hdc/Lemmas/GenNumFixed.lean identify the resulting list expressions with `weightsOf`, `cleanOf`, `countValid`,
`asymW`, `l1dist`; calls of the translated `ws2d` are the model's by `C01gen.gen_ws2d_eq_model`.
The generated expressions are never copied into this file; conditions are dispatched by shape.
-/
namespace Hdc.GenNum
open Hdc Hdc.Gen.NumKernels Std.Do Hdc.PyNpF Hdc.Smooth

set_option mvcgen.warning false
set_option linter.unusedSimpArgs false
set_option linter.unusedTactic false
set_option linter.unreachableTactic false
set_option linter.unusedSectionVars false

section pgu
variable {α : Type} [Field α] [LinearOrder α] [IsStrictOrderedRing α]

/-- normal form of a verification condition: weights, count, cleaned data are the model's -/
local macro "np_entry" : tactic => `(tactic|
  simp (config := {zetaDelta := true}) only [PInvM, npComp_eq, npBoolToNum_eq, npZipSA_eq,
    npZipAS_eq, npSum_eq, npWhereSA_eq, npWhereAS_eq, npWhereSS_eq, List.toList_toArray, weights_eq,
    sum_weights, clean_eq, decide_eq_true_eq, one_lt_count, Bool.not_eq_true', Bool.not_eq_false,
    pyRange_length, List.size_toArray, List.length_append, List.length_singleton, List.length_nil,
    show ((10 : ℤ) - 0).toNat = 10 from rfl] at *)

/-- The translated `ws2dpgu` equals the hand model `Hdc.pgu` with the missing-cell test
    `x == nodata or isnan(x) or isinf(x)` (`isnan`, `isinf` arbitrary predicates): the rounded asymmetric
    (expectile) curve if `λ ≠ 0` and at least two cells are valid, the input otherwise.

    Hypotheses (as for `gen_ws2dgu_eq_model`).
    * `hout : out0.size = len(y)` - the gufunc layout `(n),(),(),() -> (n)`; the kernel writes *into* `out`.
    * `h2 : len(y) ≠ 2` - `ws2d` is specified for `n ≥ 3`; with `n ≤ 1` it is never called.

    Invariant of the loop, state `(z, znew, wa, envelope, ww, z_tmp)`: `PInv` on `(z, znew, wa, ww)`. -/
theorem gen_ws2dpgu_eq_model (rnd : α → α) (isnan isinf : α → Bool) (y : List α)
    (lam nodata p : α) (out0 : Array α) (hout : out0.size = y.length) (h2 : y.length ≠ 2) :
    Gen.NumKernels.ws2dpgu rnd isnan isinf y.toArray lam nodata p out0 =
      match Hdc.pgu (fun x => eqv x nodata || isnan x || isinf x) y lam p with
      | some z => (z.map rnd).toArray
      | none => y.toArray := by
  generalize hres : Gen.NumKernels.ws2dpgu rnd isnan isinf y.toArray lam nodata p out0 = res
  apply Id.of_wp_run_eq hres
  mvcgen invariants
  · ⇓⟨xs, s⟩ => ⌜PInvM (fun x => eqv x nodata || isnan x || isinf x) y lam p
      xs.prefix.length s.1 s.2.1 s.2.2.1 s.2.2.2.2.1⌝
  all_goals
    pyn_ranges
    np_entry
  all_goals first
    -- one pass of the loop: `ww` is `asymW`, `znew` the re-fitted curve, `z_tmp` the `l1dist`;
    -- then `break` / `z[:] = znew[:]`
    | (have hI := ‹PInv _ _ _ _ _ _ _ _ _ _ _›
       have hc := ‹1 < countValid _ y›
       simp only [npZipAA_eq, npMap_eq, npMaskSetS_eq, npSetAll_eq, gen_ws2d_arr, maskSet_both,
         zipWith_lt_swap, asymW_zip, l1dist_zip, C01.ws2d_length, hI.zsz, hI.nsz, hI.asz, List.size_toArray,
         List.toList_toArray, List.length_zipWith, List.length_map, Array.length_toList,
         asymW_length, weightsOf_length, cleanOf_length, Nat.min_self,
         three_le_of_count _ y hc h2] at *
       first
         | exact hI.brk (by omega) _ _
             (by simp [C01.ws2d_length, hI.zsz]) (by simp [hI.zsz]) ‹eqv _ _ = true›
         | exact hI.step (by omega) (by simp) _ (by simp [hI.zsz]) ‹¬ eqv _ _ = true›)
    -- entry of the loop: `z = znew = wa = np.zeros(m)`
    | exact PInv.init _ _ lam p 10 (by omega) _ _ _ _ (zeros_toList _ _ (by simp)) (by simp) (by simp)
    -- after the loop: `z = ws2d(y, lmda, ww); np.round(z, 0, out)`
    | (have hc := ‹1 < countValid _ y›
       rw [pgu_some _ y lam p ‹eqv lam _ = false› hc]
       exact (‹PInv _ _ _ _ _ _ _ _ _ _ _›).post rfl (by simp)
         (by simpa using three_le_of_count _ y hc h2) rnd out0 (by simpa using hout))
    -- fewer than two valid cells: `out[:] = y[:]`
    | (rw [pgu_none_count _ y lam p ‹¬ 1 < countValid _ y›]
       exact setAll_list out0 y hout)
    -- `lmda == 0`: `out[:] = y[:]`
    | (rw [pgu_none_lam _ y lam p ‹eqv lam _ = true›]
       exact setAll_list out0 y hout)

/-- the model produces a curve: the output is its rounding -/
theorem gen_ws2dpgu_some (rnd : α → α) (isnan isinf : α → Bool) (y : List α) (lam nodata p : α)
    (out0 : Array α) (hout : out0.size = y.length) (h2 : y.length ≠ 2) (z : List α)
    (hm : Hdc.pgu (fun x => eqv x nodata || isnan x || isinf x) y lam p = some z) :
    Gen.NumKernels.ws2dpgu rnd isnan isinf y.toArray lam nodata p out0 = (z.map rnd).toArray := by
  rw [gen_ws2dpgu_eq_model rnd isnan isinf y lam nodata p out0 hout h2, hm]

/-- the model passes the input through (`λ = 0` or fewer than two valid cells); no restriction on `len(y)` -/
theorem gen_ws2dpgu_none (rnd : α → α) (isnan isinf : α → Bool) (y : List α) (lam nodata p : α)
    (out0 : Array α) (hout : out0.size = y.length)
    (hm : Hdc.pgu (fun x => eqv x nodata || isnan x || isinf x) y lam p = none) :
    Gen.NumKernels.ws2dpgu rnd isnan isinf y.toArray lam nodata p out0 = y.toArray := by
  generalize hres : Gen.NumKernels.ws2dpgu rnd isnan isinf y.toArray lam nodata p out0 = res
  apply Id.of_wp_run_eq hres
  mvcgen invariants
  · ⇓⟨_, _⟩ => ⌜True⌝
  all_goals np_entry
  all_goals first
    | trivial
    -- the fit is not reached: the model would return a curve
    | (rw [pgu_some _ y lam p ‹eqv lam _ = false› ‹1 < countValid _ y›] at hm; cases hm)
    | exact setAll_list out0 y hout

/-- the output keeps the length of the buffer -/
theorem gen_ws2dpgu_size (rnd : α → α) (isnan isinf : α → Bool) (y : Array α) (lam nodata p : α)
    (out0 : Array α) :
    (Gen.NumKernels.ws2dpgu rnd isnan isinf y lam nodata p out0).size = out0.size := by
  generalize hres : Gen.NumKernels.ws2dpgu rnd isnan isinf y lam nodata p out0 = res
  apply Id.of_wp_run_eq hres
  mvcgen invariants
  · ⇓⟨_, _⟩ => ⌜True⌝
  all_goals first
    | trivial
    | simp (config := {zetaDelta := true}) only [size_npRoundInto, size_npSetAll]

/-! ### non-vacuity on concrete rational inputs (`rnd` the identity, no NaN / ∞ in ℚ) -/

/-- seven valid cells, λ = 2, p = 9/10 (upper envelope); the buffer starts with garbage -/
example :
    Gen.NumKernels.ws2dpgu (fun v => v) (fun _ => false) (fun _ => false)
        [1, 2, 4, 3, 5, 9, 2].toArray (2 : ℚ) (-1) (9 / 10) #[7, 7, 7, 7, 7, 7, 7]
      = #[2615232807 / 2371664947, 17894268182 / 7114994841, 27906302764 / 7114994841,
          37662053063 / 7114994841, 47190924445 / 7114994841, 55706468849 / 7114994841,
          61841440702 / 7114994841] := by
  rw [gen_ws2dpgu_some _ _ _ [1, 2, 4, 3, 5, 9, 2] _ _ _ _ (by rfl) (by decide)
    [2615232807 / 2371664947, 17894268182 / 7114994841, 27906302764 / 7114994841,
      37662053063 / 7114994841, 47190924445 / 7114994841, 55706468849 / 7114994841,
      61841440702 / 7114994841] (by decide +kernel)]
  rfl

/-- one nodata cell -/
example :
    Gen.NumKernels.ws2dpgu (fun v => v) (fun _ => false) (fun _ => false)
        [1, 2, -1, 3, 5, 9, 2].toArray (2 : ℚ) (-1) (9 / 10) #[7, 7, 7, 7, 7, 7, 7]
      = #[100559501 / 102213981, 243259262 / 102213981, 386703539 / 102213981,
          529695283 / 102213981, 671037445 / 102213981, 798380309 / 102213981,
          891375782 / 102213981] := by
  rw [gen_ws2dpgu_some _ _ _ [1, 2, -1, 3, 5, 9, 2] _ _ _ _ (by rfl) (by decide)
    [100559501 / 102213981, 243259262 / 102213981, 386703539 / 102213981,
      529695283 / 102213981, 671037445 / 102213981, 798380309 / 102213981,
      891375782 / 102213981] (by decide +kernel)]
  rfl

/-- p = 1/2: the symmetric weights are half the validity weights and the loop stops by `break` -/
example :
    Gen.NumKernels.ws2dpgu (fun v => v) (fun _ => false) (fun _ => false)
        [1, 2, 3, 4, 5].toArray (2 : ℚ) (-1) (1 / 2) #[7, 7, 7, 7, 7] = #[1, 2, 3, 4, 5] := by
  rw [gen_ws2dpgu_some _ _ _ [1, 2, 3, 4, 5] _ _ _ _ (by rfl) (by decide) [1, 2, 3, 4, 5]
    (by decide +kernel)]
  rfl

/-- a single valid cell: pass-through (the nodata cells are returned as they came) -/
example :
    Gen.NumKernels.ws2dpgu (fun v => v) (fun _ => false) (fun _ => false)
        [1, -1, -1, -1].toArray (2 : ℚ) (-1) (9 / 10) #[7, 7, 7, 7] = #[1, -1, -1, -1] := by
  rw [gen_ws2dpgu_none _ _ _ [1, -1, -1, -1] _ _ _ _ (by rfl) (by decide +kernel)]

/-- λ = 0: pass-through, also on two cells -/
example :
    Gen.NumKernels.ws2dpgu (fun v => v) (fun _ => false) (fun _ => false)
        [1, 2].toArray (0 : ℚ) (-1) (9 / 10) #[7, 7] = #[1, 2] := by
  rw [gen_ws2dpgu_none _ _ _ [1, 2] _ _ _ _ (by rfl) (by decide +kernel)]

/-! ### the two hypotheses are needed -/

/-- `len(y) = 2`, both cells valid: the source (`ws2d` reads wrapped-around cells) and the model differ -/
example :
    Gen.NumKernels.ws2dpgu (fun v => v) (fun _ => false) (fun _ => false) [1, 2].toArray (2 : ℚ)
        (-1) (9 / 10) #[7, 7] = #[353401 / 185281, 368602 / 185281]
    ∧ Hdc.pgu (fun x => eqv x (-1) || false || false) [1, 2] (2 : ℚ) (9 / 10)
        = some [-327 / 253, -294 / 253] := by
  decide +kernel

/-- a buffer of another length than the series: `out[:] = y[:]` cannot be performed (NumPy raises; the
    translation keeps the buffer) -/
example :
    Gen.NumKernels.ws2dpgu (fun v => v) (fun _ => false) (fun _ => false) [1, 2, 4, 3, 5].toArray
        (0 : ℚ) (-1) (9 / 10) #[7, 7, 7] = #[7, 7, 7] := by
  decide +kernel

end pgu

end Hdc.GenNum
