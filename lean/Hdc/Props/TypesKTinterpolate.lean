import Hdc.Props.TypesCommon
/-
Type-level theorems of the compiled kernel `tinterpolate` (see Hdc/Props/TypesCommon.lean for the families, the whitelists and
their justification).  One module per kernel, so that a change to the typing / decorator of one kernel breaks the obligations
of the properties anchored at that kernel only.
-/
namespace Hdc.Props.Types
open Hdc.Types Hdc.Gen.Types

gufunc_family tinterpolate documented prod [[.i16], [.b, .u8, .f64], [.i32, .i16, .u8], [.u8]]

end Hdc.Props.Types
