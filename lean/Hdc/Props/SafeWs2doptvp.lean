import Hdc.Gen.SafeWs2doptvp
import Hdc.Gen.NumWs2doptvp
import Hdc.Lemmas.SafeOptvp
import Hdc.Lemmas.SafeSimN
import Std.Tactic.Do
import Mathlib.Tactic.CasesM
/-
SafeWs2doptvp  Safety of `hdc/algo/ops/ws2doptvp.py::ws2doptvp`, proved FROM THE SOURCE: `Hdc.Gen.Safe.ws2doptvp`
(Hdc/Gen/SafeWs2doptvp.lean, written by harness/py2lean_optvp.py) is the statement-by-statement translation plus the flag
`bad`, set by
  * `oob a.size i`         every subscript: `y[ii]`, `w[ii]`; `llas[lix]`; `y[j]`, `z[j]`, `wa[j]`, `w[j]`, `ww[j]`, `znew[j]` (both
                           copies of the re-weighting loop); `w[i]`, `y[i]`, `z[i]`, `fits[lix]`, `z[i+1]`, `diff1[i]`, `diff1[i+1]`,
                           `pens[lix]`; `llas[1]`, `llas[0]`, `llas[i]`, `llas[i+1]`, `fits[i]`, `fits[i+1]`, `pens[i]`, `pens[i+1]`,
                           `v[i]`, `lamids[i]`; `v[k]`, `v[i]`, `lamids[k]`, `lopt[0]` (stores and reads)
  * `eqv (log(10) * llastep) 0`   the only scalar division with a non-literal divisor (`/ 2` is not instrumented)
  * `(Safe.ws2d …).2`      every call of the instrumented smoother, with the re-weighted weights
  * `badSlice a.size 0 m`  the slices with explicit bounds `znew[0:m]`, `z[0:m]` (read and store)
  * `lenDiff` / `badStoreLen`   the stores `znew[:] = ws2d(…)`, `znew[0:m] = ws2d(…)`, `z[0:m] = znew[0:m]`, `out[:] = y[:]` and
                           `np.round(z, 0, out)`: the source must have exactly the cells of the target (Hdc/PySafeV.lean)
(`z[:] = 0.0` is a fill of the whole array: no check.)

  safe_ws2doptvp_fst   (Safe.ws2doptvp …).1 = Gen.NumKernels.ws2doptvp …       every carrier, every input
  safe_ws2doptvp_ok    under `Contract` the flag is false
  `example`s           for every hypothesis an input over ℚ outside it where the flag is true (for `3 ≤ len y`: at 2 cells the
                       flag is false on the inputs tried, as for `ws2d` itself)
-/
namespace Hdc.SafeWs2doptvp
open Hdc Hdc.Gen.NumKernels Hdc.GenNum Hdc.SafeL Hdc.SafeOptv Hdc.SafeOptvp Hdc.SafeSimN Std.Do
open Hdc.Ws2dGen (av Holds)
open Hdc.Ws2d (fnl)

set_option mvcgen.warning false
set_option linter.unusedSimpArgs false
set_option linter.unusedTactic false
set_option linter.unreachableTactic false
set_option linter.unusedSectionVars false

/-- (i) the instrumented program is the translated source plus a flag -/
theorem safe_ws2doptvp_fst {α : Type} [Add α] [Sub α] [Mul α] [Div α] [Neg α] [NatCast α] [LT α] [DecidableLT α]
    (F : VFns α) (rnd : α → α) (y : Array α) (nodata p : α) (llas out lopt : Array α) :
    (Gen.Safe.ws2doptvp F rnd y nodata p llas out lopt).1 = Gen.NumKernels.ws2doptvp F rnd y nodata p llas out lopt := by
  unfold Gen.Safe.ws2doptvp Gen.NumKernels.ws2doptvp
  simp only [SafeWs2d.safe_ws2d_fst]
  safe_sim

variable {α : Type} [Field α] [LinearOrder α] [IsStrictOrderedRing α]

/-- the contract of `ws2doptvp`.  The shapes the gufunc signature `(n),(),(),(m) -> (n),()` guarantees: `out` has the length of
    `y` (both branches store a curve of `len y` cells into it), `lopt` has a cell.  Everything else is only needed when at
    least two cells are valid (otherwise the kernel copies `y` and stores `lopt[0] = 0`): at least 3 cells (what `ws2d`
    needs), at least 2 grid entries with `llas[1] ≠ llas[0]`, `0 < p < 1` (the re-weighting multiplies each weight by `p` or
    `1 - p`), and the float functions the translation takes as parameters behave like `10^·` (positive) and `log(10)`
    (non-zero). -/
structure Contract (F : VFns α) (y llas : List α) (nodata p : α) (out0 lopt0 : Array α) : Prop where
  out : out0.size = y.length
  lopt : 1 ≤ lopt0.size
  fit : 2 ≤ countValid (fun x => eqv x nodata) y →
    3 ≤ y.length ∧ 2 ≤ llas.length ∧ fnl llas 1 ≠ fnl llas 0 ∧ 0 < p ∧ p < 1 ∧ (∀ l, 0 < F.pow10 l) ∧ F.ln10 ≠ 0

set_option maxHeartbeats 4000000 in
/-- (ii) under the contract the flag is false.  One invariant per loop: the flag is still false, the sizes of the arrays the
    loop writes; `WInv` for the weights loop and `Rew` for the re-weighting loops (Hdc/Lemmas/SafeOptvp.lean): `ww` is the
    validity weights times positive factors, hence a weight vector `ws2d` accepts. -/
theorem safe_ws2doptvp_ok (F : VFns α) (rnd : α → α) (y llas : List α) (nodata p : α)
    (out0 lopt0 : Array α) (hc : Contract F y llas nodata p out0 lopt0) :
    (Gen.Safe.ws2doptvp F rnd y.toArray nodata p llas.toArray out0 lopt0).2 = false := by
  have hl := hc.lopt
  have ho := hc.out
  generalize hres : Gen.Safe.ws2doptvp F rnd y.toArray nodata p llas.toArray out0 lopt0 = res
  apply Id.of_wp_run_eq hres
  mvcgen invariants
  -- weights loop, state `(bad, w, n)`
  · ⇓⟨xs, s⟩ => ⌜s.1 = false ∧ WInv nodata y xs.prefix.length s.2.1 s.2.2⌝
  -- λ grid, state `(bad, i, j, fits, pens, z, znew, diff1, wa, ww, lmda, z_tmp, w_tmp, y_tmp, z2)`
  · ⇓⟨xs, s⟩ => ⌜s.1 = false ∧ s.2.2.2.1.size = llas.length ∧
      s.2.2.2.2.1.size = llas.length ∧ s.2.2.2.2.2.1.size = y.length ∧ s.2.2.2.2.2.2.1.size = y.length ∧
      s.2.2.2.2.2.2.2.1.size = y.length - 1 ∧ s.2.2.2.2.2.2.2.2.1.size = y.length ∧ s.2.2.2.2.2.2.2.2.2.1.size = y.length⌝
  -- re-weighting loop with `break`, state `(bad, i, j, z, znew, wa, ww, z_tmp, y_tmp)`: `ww` is re-weighted once a pass has run
  · ⇓⟨xs, s⟩ => ⌜s.1 = false ∧ s.2.2.2.1.size = y.length ∧ s.2.2.2.2.1.size = y.length ∧
      s.2.2.2.2.2.1.size = y.length ∧ s.2.2.2.2.2.2.1.size = y.length ∧
      (0 < xs.prefix.length → Rew (weightsOf (missNd nodata) y) y.length s.2.2.2.2.2.2.1)⌝
  -- `wa[j] = …; ww[j] = w[j] * wa[j]`, state `(bad, j, wa, ww, z_tmp, y_tmp)`
  · ⇓⟨xs, s⟩ => ⌜s.1 = false ∧ s.2.2.1.size = y.length ∧ s.2.2.2.1.size = y.length ∧
      Rew (weightsOf (missNd nodata) y) xs.prefix.length s.2.2.2.1⌝
  -- `z_tmp += abs(znew[j] - z[j])`, state `(bad, j, z_tmp)`
  · ⇓⟨xs, s⟩ => ⌜s.1 = false⌝
  -- `fits[lix] += …`, state `(bad, i, fits, z_tmp, w_tmp, y_tmp)`
  · ⇓⟨xs, s⟩ => ⌜s.1 = false ∧ s.2.2.1.size = llas.length⌝
  -- `diff1[i] = z[i+1] - z[i]`, state `(bad, i, diff1, z_tmp, z2)`
  · ⇓⟨xs, s⟩ => ⌜s.1 = false ∧ s.2.2.1.size = y.length - 1⌝
  -- `pens[lix] += …`, state `(bad, i, pens, z_tmp, z2)`
  · ⇓⟨xs, s⟩ => ⌜s.1 = false ∧ s.2.2.1.size = llas.length⌝
  -- V-curve, state `(bad, i, lamids, v, l1, l2, fit1, fit2, pen1, pen2)`
  · ⇓⟨xs, s⟩ => ⌜s.1 = false ∧ s.2.2.1.size = llas.length - 1 ∧ s.2.2.2.1.size = llas.length - 1⌝
  -- first strict minimum, state `(bad, i, k, vmin)`
  · ⇓⟨xs, s⟩ => ⌜s.1 = false ∧ 0 ≤ s.2.2.1 ∧ s.2.2.1 < (llas.length : ℤ) - 1⌝
  -- final re-weighting loop (same three states)
  · ⇓⟨xs, s⟩ => ⌜s.1 = false ∧ s.2.2.2.1.size = y.length ∧ s.2.2.2.2.1.size = y.length ∧
      s.2.2.2.2.2.1.size = y.length ∧ s.2.2.2.2.2.2.1.size = y.length ∧
      (0 < xs.prefix.length → Rew (weightsOf (missNd nodata) y) y.length s.2.2.2.2.2.2.1)⌝
  · ⇓⟨xs, s⟩ => ⌜s.1 = false ∧ s.2.2.1.size = y.length ∧ s.2.2.2.1.size = y.length ∧
      Rew (weightsOf (missNd nodata) y) xs.prefix.length s.2.2.2.1⌝
  · ⇓⟨xs, s⟩ => ⌜s.1 = false⌝
  all_goals
    pyn_ranges
    simp (config := {zetaDelta := true}) only [List.size_toArray, List.length_append,
      List.length_singleton, List.length_nil, pyRange_length, decide_eq_true_eq, gt_iff_lt,
      Int.toNat_natCast, Int.sub_zero, show Int.toNat 10 = 10 from rfl] at *
  all_goals try casesm* _ ∧ _
  all_goals first
    -- weights loop: nodata cell / valid cell / entry
    | (have hW := ‹WInv _ _ _ _ _›
       refine ⟨?_, hW.step_miss (by omega) ‹eqv _ _ = true› (by omega)⟩
       simp (disch := omega) only [*, hW.hw.size, oob_false, Bool.or_false])
    | (have hW := ‹WInv _ _ _ _ _›
       refine ⟨?_, hW.step_valid (by omega) ‹¬ eqv _ _ = true› (by omega)⟩
       simp (disch := omega) only [*, hW.hw.size, oob_false, Bool.or_false])
    | exact ⟨trivial, WInv.init nodata y⟩
    -- fewer than two valid cells: pass-through, `lopt[0] = 0`
    | (have hnot := ‹¬ (1 : ℤ) < _›
       simp (disch := omega) only [*, oob_false, lenDiff_false, size_npSlice_toArray, size_wr, List.size_toArray,
         PyNpV.size_npSetSlice_full, Bool.or_false])
    | skip
  -- after the weights loop (two valid cells): `w` is the validity weight vector
  all_goals
    obtain ⟨hw, hn⟩ := (‹WInv _ _ _ _ _›).final (by omega)
    have hv : 2 ≤ countValid (missNd nodata) y := by omega
    obtain ⟨h3, h2, hstep, hp0, hp1, hpow, hln⟩ := hc.fit hv
    have hW := WOK.raw (missNd nodata) y hv
    have hp1' := p1_pos hp1
    have hdiv : eqv (F.ln10 * (rd llas.toArray 1 - rd llas.toArray 0)) (nat 0) = false := by
      rw [rd_of_eq _ 1 1 rfl, rd_of_eq _ 0 0 rfl, av_list, av_list]
      exact eqv_zero_false _ (mul_ne_zero hln (sub_ne_zero.2 hstep))
    simp only [hw] at *
    (try simp only [rd_wr_zero _ _ hl] at *)
  all_goals try (have hR := ‹0 < 10 → Rew _ _ _› (by omega))
  all_goals (repeat' apply And.intro)
  all_goals first
    | exact Rew.init _ _
    | exact Rew.step ‹Rew _ _ _› (by omega) (by omega) (by omega) hp0
    | exact Rew.step ‹Rew _ _ _› (by omega) (by omega) (by omega) hp1'
    | skip
  all_goals try simp only [Bool.or_false, Bool.false_or, *]
  all_goals try simp (disch := first | omega | assumption | exact hpow _) only [*, size_wr, Array.size_replicate,
          ws2d_call_size, List.size_toArray, Smooth.weightsOf_length, oob_false, hdiv, Bool.or_false, Bool.false_or,
          badSlice_false, badStoreLen_false, lenDiff_false, size_npSlice_setSlice, size_npSlice_full,
          size_npFillSlice_full, PyNpV.size_npSetSlice_full, size_npRoundInto,
          Rew.call_ok _ h3 hW, Int.toNat_natCast, implies_true]
  all_goals omega

/-! ### Non-vacuity and sharpness (ℚ; toy functions `log = sqrt = id`, `10^l = l² + 1`, `log 10 = 1`; `round = id`) -/

private def Fq : VFns ℚ := ⟨fun v => v, fun v => v, fun l => l * l + 1, 1⟩
private def ov (F : VFns ℚ) (y : Array ℚ) (p : ℚ) (llas out lopt : Array ℚ) : Bool :=
  (Gen.Safe.ws2doptvp F (fun v => v) y (-3000) p llas out lopt).2

/-- an instance of the contract: 5 cells, one of them `nodata`, a grid of 3, `p = 9/10` -/
example : ov Fq #[1, 2, -3000, 3, 5] (9 / 10) #[0, 1, 2] #[0, 0, 0, 0, 0] #[0] = false :=
  safe_ws2doptvp_ok Fq _ [1, 2, -3000, 3, 5] [0, 1, 2] _ _ _ _
    ⟨by decide, by decide, fun _ => ⟨by decide, by decide, by decide +kernel, by norm_num, by norm_num,
      fun l => by show (0 : ℚ) < l * l + 1; linarith [mul_self_nonneg l], by decide⟩⟩
/-- fewer than two valid cells: only the shapes of `out`, `lopt` matter -/
example : ov Fq #[-3000, 2, -3000] (9 / 10) #[] #[0, 0, 0] #[0] = false :=
  safe_ws2doptvp_ok Fq _ [-3000, 2, -3000] [] _ _ _ _ ⟨by decide, by decide, fun h => absurd h (by decide +kernel)⟩
/-- `len out = len y`: a shorter / longer `out` (`np.round(z, 0, out)`), a shorter `out` on the pass-through (`out[:] = y[:]`) -/
example : ov Fq #[1, 2, -3000, 3, 5] (9 / 10) #[0, 1, 2] #[0, 0, 0, 0] #[0] = true := by decide +kernel
example : ov Fq #[1, 2, -3000, 3, 5] (9 / 10) #[0, 1, 2] #[0, 0, 0, 0, 0, 0] #[0] = true := by decide +kernel
example : ov Fq #[-3000, 2, -3000] (9 / 10) #[] #[0, 0] #[0] = true := by decide +kernel
/-- `lopt`: an empty output buffer (`lopt[0]` out of range), on both branches -/
example : ov Fq #[1, 2, -3000, 3, 5] (9 / 10) #[0, 1, 2] #[0, 0, 0, 0, 0] #[] = true := by decide +kernel
example : ov Fq #[-3000, 2, -3000] (9 / 10) #[] #[0, 0, 0] #[] = true := by decide +kernel
/-- `2 ≤ len llas`: a grid of one entry (`llas[1]`, `v[0]` out of range) -/
example : ov Fq #[1, 2, -3000, 3, 5] (9 / 10) #[0] #[0, 0, 0, 0, 0] #[0] = true := by decide +kernel
/-- `llas[1] ≠ llas[0]`: the V-curve divides by `log(10) * (llas[1] - llas[0])` -/
example : ov Fq #[1, 2, -3000, 3, 5] (9 / 10) #[1, 1, 2] #[0, 0, 0, 0, 0] #[0] = true := by decide +kernel
/-- `0 < p`: with `p = 0` every cell above the curve gets weight 0 (all of them in the first pass) -/
example : ov Fq #[1, 2, -3000, 3, 5] 0 #[0, 1, 2] #[0, 0, 0, 0, 0] #[0] = true := by decide +kernel
/-- `p < 1`: with `p = 1` every cell not above the curve gets weight 0 -/
example : ov Fq #[1, 2, -3000, 3, 5] 1 #[0, 1, 2] #[0, 0, 0, 0, 0] #[0] = true := by decide +kernel
/-- `log(10) ≠ 0` and `10^l > 0` are facts about the float functions; with other parameters the flag is set -/
example : ov ⟨fun v => v, fun v => v, fun l => l * l + 1, 0⟩ #[1, 2, -3000, 3, 5] (9 / 10) #[0, 1, 2] #[0, 0, 0, 0, 0] #[0]
    = true := by decide +kernel
example : ov ⟨fun v => v, fun v => v, fun _ => 0, 1⟩ #[1, 2, -3000, 3, 5] (9 / 10) #[0, 1, 2] #[0, 0, 0, 0, 0] #[0]
    = true := by decide +kernel
/-- `3 ≤ len y`: with two cells (both valid) the smoother wraps its indices but no divisor vanishes on this input -/
example : ov Fq #[1, 2] (9 / 10) #[0, 1, 2] #[0, 0] #[0] = false := by decide +kernel

end Hdc.SafeWs2doptvp
