import Hdc.Lemmas.GenNumACWrap
import Hdc.Props.GenNumAC1d
import Hdc.Props.GenNumACYxt
import Hdc.Props.C15
import Hdc.Gen.NumAutocorrTyx
import Std.Tactic.Do
/-
GenNumACTyx  The GENERATED translation of the pixel-loop wrapper `hdc/algo/ops/autocorr.py::autocorr_tyx(tyx, nodata=None)` ((t, y, x)
cube; Hdc/Gen/NumAutocorrTyx.lean, written by harness/py2lean_ac.py from the Python source on every run) computes, pixel by pixel, the
hand model `Hdc.autocorr1d` on the series `tyx[:, r, c]` of the pixel.  The twin of Hdc/Props/GenNumACYxt.lean (read its header): the
cube is the row-major flattening with the shape `(nt, nr, nc)`, the series of a pixel is `colSeries` (stride `nr * nc`).

  gen_autocorr_tyx_none_cells / _nd_cells, gen_autocorr_tyx_none_eq_model / _nd_eq_model / gen_autocorr_tyx_eq_model,
  gen_autocorr_tyx_range, gen_autocorr_tyx_degenerate, gen_autocorr_tyx_pixel_local        as for the (y, x, t) wrapper
  gen_autocorr_tyx_eq_yxt_transposed    layout consistency: `autocorr_tyx(tyx) = autocorr(np.transpose(tyx, (1, 2, 0)))`, the whole array
-/
namespace Hdc.GenNumACTyx
open Hdc Hdc.Gen.NumKernels Hdc.PyNpT Hdc.PyNpX Hdc.GenNum Hdc.GenNumACW Std.Do
open Hdc.Ws2dGen
open Hdc.GenNumACYxt (optF optI ACDegenerate)

set_option mvcgen.warning false
set_option linter.unusedSimpArgs false
set_option linter.unusedTactic false
set_option linter.unreachableTactic false
set_option linter.unusedSectionVars false

variable {α : Type} [Field α] [LinearOrder α] [IsStrictOrderedRing α]

/-! ### the loops (no hypothesis on the buffer) -/

/-- nodata omitted: the result has `nr * nc` cells; cell `(r, c)` is the stored value of the generated `autocorr_1d` on the slice -/
theorem gen_autocorr_tyx_none_cells (isnan : α → Bool) (rsqrt : α → α) (eps : α) (store32 : α → α) (x : Array α)
    (nt nr nc : ℕ) :
    (Gen.NumKernels.autocorr_tyx_none isnan rsqrt eps store32 x nt nr nc).size = nr * nc ∧
    ∀ r c, r < nr → c < nc →
      (Gen.NumKernels.autocorr_tyx_none isnan rsqrt eps store32 x nt nr nc)[r * nc + c]?
        = some (store32 (autocorr_1d_none isnan rsqrt eps (npCol3 x (nat 0) nt nr nc r c))) := by
  suffices h : CellInv nr nc (fun r c => store32 (autocorr_1d_none isnan rsqrt eps (npCol3 x (nat 0) nt nr nc r c)))
      (nr * nc) (Gen.NumKernels.autocorr_tyx_none isnan rsqrt eps store32 x nt nr nc) from
    ⟨h.sz, fun r c hr hc => h.final hr hc⟩
  generalize hres : Gen.NumKernels.autocorr_tyx_none isnan rsqrt eps store32 x nt nr nc = res
  apply Id.of_wp_run_eq hres
  mvcgen invariants
  · ⇓⟨xs, s⟩ => ⌜CellInv nr nc (fun r c => store32 (autocorr_1d_none isnan rsqrt eps (npCol3 x (nat 0) nt nr nc r c)))
      (xs.prefix.length * nc) s.2⌝
  · ⇓⟨xs, s⟩ => by
      py_name cur as rr
      exact ⌜CellInv nr nc (fun r c => store32 (autocorr_1d_none isnan rsqrt eps (npCol3 x (nat 0) nt nr nc r c)))
        (rr.toNat * nc + xs.prefix.length) s.2⌝
  all_goals
    pyn_ranges
    simp (config := {zetaDelta := true}) only [List.size_toArray, List.length_append,
      List.length_singleton, List.length_nil, GenNum.pyRange_length, decide_eq_true_eq, gt_iff_lt,
      Int.toNat_natCast, Int.sub_zero, SPred.down_pure] at *
  case vc1.step =>
    exact CellInv.loop_step
      (g := fun ri ci => store32 (autocorr_1d_none isnan rsqrt eps (npCol3 x (nat 0) nt nr nc ri ci)))
      (by assumption) (by assumption) (by assumption)
  case vc2.step.pre => exact CellInv.row_start (by assumption) (by assumption)
  case vc3.step.post.success => exact CellInv.row_end (by assumption) (by assumption)
  case vc4.pre => exact CellInv.init' _ _ _ _
  case vc5.post.success => assumption

/-- integer cells with a nodata value: the same, with the integer specialisation of `autocorr_1d`; `nodata` is forwarded -/
theorem gen_autocorr_tyx_nd_cells (rsqrt : α → α) (eps : α) (store32 : α → α) (x : Array Int) (nt nr nc : ℕ)
    (nodata : Int) :
    (Gen.NumKernels.autocorr_tyx_nd rsqrt eps store32 x nt nr nc nodata).size = nr * nc ∧
    ∀ r c, r < nr → c < nc →
      (Gen.NumKernels.autocorr_tyx_nd rsqrt eps store32 x nt nr nc nodata)[r * nc + c]?
        = some (store32 (autocorr_1d_nd rsqrt eps (npCol3 x (0 : Int) nt nr nc r c) nodata)) := by
  suffices h : CellInv nr nc (fun r c => store32 (autocorr_1d_nd rsqrt eps (npCol3 x (0 : Int) nt nr nc r c) nodata))
      (nr * nc) (Gen.NumKernels.autocorr_tyx_nd rsqrt eps store32 x nt nr nc nodata) from
    ⟨h.sz, fun r c hr hc => h.final hr hc⟩
  generalize hres : Gen.NumKernels.autocorr_tyx_nd rsqrt eps store32 x nt nr nc nodata = res
  apply Id.of_wp_run_eq hres
  mvcgen invariants
  · ⇓⟨xs, s⟩ => ⌜CellInv nr nc (fun r c => store32 (autocorr_1d_nd rsqrt eps (npCol3 x (0 : Int) nt nr nc r c) nodata))
      (xs.prefix.length * nc) s.2⌝
  · ⇓⟨xs, s⟩ => by
      py_name cur as rr
      exact ⌜CellInv nr nc (fun r c => store32 (autocorr_1d_nd rsqrt eps (npCol3 x (0 : Int) nt nr nc r c) nodata))
        (rr.toNat * nc + xs.prefix.length) s.2⌝
  all_goals
    pyn_ranges
    simp (config := {zetaDelta := true}) only [List.size_toArray, List.length_append,
      List.length_singleton, List.length_nil, GenNum.pyRange_length, decide_eq_true_eq, gt_iff_lt,
      Int.toNat_natCast, Int.sub_zero, SPred.down_pure] at *
  case vc1.step =>
    exact CellInv.loop_step
      (g := fun ri ci => store32 (autocorr_1d_nd rsqrt eps (npCol3 x (0 : Int) nt nr nc ri ci) nodata))
      (by assumption) (by assumption) (by assumption)
  case vc2.step.pre => exact CellInv.row_start (by assumption) (by assumption)
  case vc3.step.post.success => exact CellInv.row_end (by assumption) (by assumption)
  case vc4.pre => exact CellInv.init' _ _ _ _
  case vc5.post.success => assumption

/-! ### MAIN: every pixel holds the model autocorrelation of its series -/

/-- nodata omitted (float cells, NaN = missing): cell `(r, c)` of the result is the stored model autocorrelation of `tyx[:, r, c]`.
    Hypotheses: `len(x) = nt * nr * nc` (the shape fits the buffer; Numba does no bounds check, a shorter buffer is read beyond
    its end), `r * nc + c < nr * nc` (the cell exists; every pixel `r < nr`, `c < nc` of the cube satisfies it, and as Numba checks no bounds an index `c ≥ nc` is the pixel with the same number `r * nc + c`).  No hypothesis on `nt`: a series of length 0 or 1 gives `store32 0`. -/
theorem gen_autocorr_tyx_none_eq_model (isnan : α → Bool) (rsqrt : α → α) (eps : α) (store32 : α → α) (x : List α)
    (nt nr nc : ℕ) (hlen : x.length = nt * nr * nc) (r c : ℕ) (hpix : r * nc + c < nr * nc) :
    (Gen.NumKernels.autocorr_tyx_none isnan rsqrt eps store32 x.toArray nt nr nc)[r * nc + c]?
      = some (store32 (Hdc.autocorr1d rsqrt eps (optF isnan (colSeries x nt nr nc r c)))) := by
  obtain ⟨hr, hc, e⟩ := pix_of_lt hpix
  have h := (gen_autocorr_tyx_none_cells isnan rsqrt eps store32 x.toArray nt nr nc).2 _ _ hr hc
  rw [e] at h
  rw [h, npCol3_eq_colSeries x _ nt nr nc _ _ hlen hr hc, GenNumAC1d.gen_autocorr_1d_none_eq_model,
    colSeries_alias x nt nr nc e]
  rfl

/-- integer cells with an integer nodata (`== nodata` = missing, valid cells cast to the carrier) -/
theorem gen_autocorr_tyx_nd_eq_model (rsqrt : α → α) (eps : α) (store32 : α → α) (x : List Int) (nt nr nc : ℕ)
    (nodata : Int) (hlen : x.length = nt * nr * nc) (r c : ℕ) (hpix : r * nc + c < nr * nc) :
    (Gen.NumKernels.autocorr_tyx_nd rsqrt eps store32 x.toArray nt nr nc nodata)[r * nc + c]?
      = some (store32 (Hdc.autocorr1d rsqrt eps (optI nodata (colSeries x nt nr nc r c)))) := by
  obtain ⟨hr, hc, e⟩ := pix_of_lt hpix
  have h := (gen_autocorr_tyx_nd_cells rsqrt eps store32 x.toArray nt nr nc nodata).2 _ _ hr hc
  rw [e] at h
  rw [h, npCol3_eq_colSeries x _ nt nr nc _ _ hlen hr hc, GenNumAC1d.gen_autocorr_1d_nd_eq_model,
    colSeries_alias x nt nr nc e]
  rfl

/-- both specialisations, and the shape of the result -/
theorem gen_autocorr_tyx_eq_model (isnan : α → Bool) (rsqrt : α → α) (eps : α) (store32 : α → α) (xF : List α)
    (xI : List Int) (nodata : Int) (nt nr nc : ℕ) (r c : ℕ) (hpix : r * nc + c < nr * nc) :
    (xF.length = nt * nr * nc →
      (Gen.NumKernels.autocorr_tyx_none isnan rsqrt eps store32 xF.toArray nt nr nc).size = nr * nc ∧
      (Gen.NumKernels.autocorr_tyx_none isnan rsqrt eps store32 xF.toArray nt nr nc)[r * nc + c]?
        = some (store32 (Hdc.autocorr1d rsqrt eps (optF isnan (colSeries xF nt nr nc r c))))) ∧
    (xI.length = nt * nr * nc →
      (Gen.NumKernels.autocorr_tyx_nd rsqrt eps store32 xI.toArray nt nr nc nodata).size = nr * nc ∧
      (Gen.NumKernels.autocorr_tyx_nd rsqrt eps store32 xI.toArray nt nr nc nodata)[r * nc + c]?
        = some (store32 (Hdc.autocorr1d rsqrt eps (optI nodata (colSeries xI nt nr nc r c))))) :=
  ⟨fun h => ⟨(gen_autocorr_tyx_none_cells isnan rsqrt eps store32 xF.toArray nt nr nc).1,
      gen_autocorr_tyx_none_eq_model isnan rsqrt eps store32 xF nt nr nc h r c hpix⟩,
   fun h => ⟨(gen_autocorr_tyx_nd_cells rsqrt eps store32 xI.toArray nt nr nc nodata).1,
      gen_autocorr_tyx_nd_eq_model rsqrt eps store32 xI nt nr nc nodata h r c hpix⟩⟩

/-! ### C15 per pixel -/

/-- Range.  With `rsqrt` an inverse square root on the positives and a `store32` that keeps `[-1, 1]` (rounding to float32 is
    monotone and −1, 1 are float32 numbers) every pixel of both specialisations holds a value in `[-1, 1]`.
    Both are needed: with `rsqrt := fun _ => 100` the series `1 2 4` gives a value far above 1 (the model is then not a
    correlation, see Hdc/Props/C15.lean), with `store32 := fun _ => 2` every cell holds 2. -/
theorem gen_autocorr_tyx_range (isnan : α → Bool) (rsqrt : α → α) (hrs : C15.IsRsqrt rsqrt) (eps : α) (store32 : α → α)
    (hst : ∀ v, -1 ≤ v → v ≤ 1 → -1 ≤ store32 v ∧ store32 v ≤ 1)
    (xF : List α) (xI : List Int) (nodata : Int) (nt nr nc : ℕ) (r c : ℕ) (hpix : r * nc + c < nr * nc) :
    (xF.length = nt * nr * nc → ∃ v,
      (Gen.NumKernels.autocorr_tyx_none isnan rsqrt eps store32 xF.toArray nt nr nc)[r * nc + c]? = some v ∧
        -1 ≤ v ∧ v ≤ 1) ∧
    (xI.length = nt * nr * nc → ∃ v,
      (Gen.NumKernels.autocorr_tyx_nd rsqrt eps store32 xI.toArray nt nr nc nodata)[r * nc + c]? = some v ∧
        -1 ≤ v ∧ v ≤ 1) := by
  refine ⟨fun h => ⟨_, gen_autocorr_tyx_none_eq_model isnan rsqrt eps store32 xF nt nr nc h r c hpix, ?_⟩,
    fun h => ⟨_, gen_autocorr_tyx_nd_eq_model rsqrt eps store32 xI nt nr nc nodata h r c hpix, ?_⟩⟩
  · exact hst _ (C15.autocorr_range rsqrt hrs eps _).1 (C15.autocorr_range rsqrt hrs eps _).2
  · exact hst _ (C15.autocorr_range rsqrt hrs eps _).1 (C15.autocorr_range rsqrt hrs eps _).2

/-- Degenerate pixels hold `store32 0`: a series of at most one cell, no pair of consecutive valid cells, a (scaled) variance
    below `eps`, or (for `0 < eps`) all valid cells equal.  `data` is the optional series of the pixel in either encoding. -/
theorem gen_autocorr_tyx_degenerate (isnan : α → Bool) (rsqrt : α → α) (eps : α) (store32 : α → α)
    (xF : List α) (xI : List Int) (nodata : Int) (nt nr nc : ℕ) (r c : ℕ) (hpix : r * nc + c < nr * nc)
 :
    (xF.length = nt * nr * nc → ACDegenerate eps (optF isnan (colSeries xF nt nr nc r c)) →
      (Gen.NumKernels.autocorr_tyx_none isnan rsqrt eps store32 xF.toArray nt nr nc)[r * nc + c]? = some (store32 0)) ∧
    (xI.length = nt * nr * nc → ACDegenerate eps (optI nodata (colSeries xI nt nr nc r c)) →
      (Gen.NumKernels.autocorr_tyx_nd rsqrt eps store32 xI.toArray nt nr nc nodata)[r * nc + c]? = some (store32 0)) := by
  have key : ∀ data, ACDegenerate eps data → Hdc.autocorr1d rsqrt eps data = 0 := by
    intro data hd
    rcases hd with h | h | h | ⟨h0, k, h⟩
    · exact C15.autocorr_degenerate_nopair rsqrt eps data (C15.nPairs_short data h)
    · exact C15.autocorr_degenerate_nopair rsqrt eps data h
    · exact C15.autocorr_degenerate_eps rsqrt eps data h
    · exact C15.autocorr_degenerate_const rsqrt eps h0 data k h
  refine ⟨fun h hd => ?_, fun h hd => ?_⟩
  · rw [gen_autocorr_tyx_none_eq_model isnan rsqrt eps store32 xF nt nr nc h r c hpix, key _ hd]
  · rw [gen_autocorr_tyx_nd_eq_model rsqrt eps store32 xI nt nr nc nodata h r c hpix, key _ hd]

/-- Pixel locality: two cubes of the same shape with the same series at pixel `(r, c)` give the same value at `(r, c)`, whatever
    the other pixels hold (so changing the series of another pixel does not change this pixel's output). -/
theorem gen_autocorr_tyx_pixel_local (isnan : α → Bool) (rsqrt : α → α) (eps : α) (store32 : α → α)
    (xF xF' : List α) (xI xI' : List Int) (nodata : Int) (nt nr nc : ℕ) (r c : ℕ) (hpix : r * nc + c < nr * nc) :
    (xF.length = nt * nr * nc → xF'.length = nt * nr * nc →
      colSeries xF nt nr nc r c = colSeries xF' nt nr nc r c →
      (Gen.NumKernels.autocorr_tyx_none isnan rsqrt eps store32 xF.toArray nt nr nc)[r * nc + c]?
        = (Gen.NumKernels.autocorr_tyx_none isnan rsqrt eps store32 xF'.toArray nt nr nc)[r * nc + c]?) ∧
    (xI.length = nt * nr * nc → xI'.length = nt * nr * nc →
      colSeries xI nt nr nc r c = colSeries xI' nt nr nc r c →
      (Gen.NumKernels.autocorr_tyx_nd rsqrt eps store32 xI.toArray nt nr nc nodata)[r * nc + c]?
        = (Gen.NumKernels.autocorr_tyx_nd rsqrt eps store32 xI'.toArray nt nr nc nodata)[r * nc + c]?) := by
  refine ⟨fun h h' hs => ?_, fun h h' hs => ?_⟩
  · rw [gen_autocorr_tyx_none_eq_model isnan rsqrt eps store32 xF nt nr nc h r c hpix,
      gen_autocorr_tyx_none_eq_model isnan rsqrt eps store32 xF' nt nr nc h' r c hpix, hs]
  · rw [gen_autocorr_tyx_nd_eq_model rsqrt eps store32 xI nt nr nc nodata h r c hpix,
      gen_autocorr_tyx_nd_eq_model rsqrt eps store32 xI' nt nr nc nodata h' r c hpix, hs]

/-! ### Non-vacuity and necessity of the hypotheses: a `(4, 2, 2)` cube over ℚ, nodata = −1 (toy `rsqrt v = 1 / v`, `store32 = id`) -/

def acCubeT : List Int := [1, 3, 5, 2,  2, 1, 5, 7,  -1, 4, 5, 1,  4, 1, 5, 8]

/-- pixel (0, 1), series `3 1 4 1` -/
example : (Gen.NumKernels.autocorr_tyx_nd (fun v : ℚ => 1 / v) (1 / 100000000) id acCubeT.toArray (4 : ℕ) (2 : ℕ) (2 : ℕ) (-1) : Array ℚ)[(0 * 2 + 1 : ℕ)]?
    = some (-5 / 252) := by
  have h := gen_autocorr_tyx_nd_eq_model (fun v : ℚ => 1 / v) (1 / 100000000) id acCubeT 4 2 2 (-1) (by decide) 0 1 (by decide)
  rw [show colSeries acCubeT 4 2 2 0 1 = [3, 1, 4, 1] by decide] at h
  refine h.trans ?_
  decide +kernel

/-- pixel (0, 0), series `1 2 nodata 4` -/
example : (Gen.NumKernels.autocorr_tyx_nd (fun v : ℚ => 1 / v) (1 / 100000000) id acCubeT.toArray (4 : ℕ) (2 : ℕ) (2 : ℕ) (-1) : Array ℚ)[(0 * 2 + 0 : ℕ)]?
    = some (1 / 8) := by
  have h := gen_autocorr_tyx_nd_eq_model (fun v : ℚ => 1 / v) (1 / 100000000) id acCubeT 4 2 2 (-1) (by decide) 0 0 (by decide)
  rw [show colSeries acCubeT 4 2 2 0 0 = [1, 2, -1, 4] by decide] at h
  refine h.trans ?_
  decide +kernel

/-- the float specialisation on the same cube (−1 plays NaN) -/
example : (Gen.NumKernels.autocorr_tyx_none (fun v : ℚ => decide (v = -1)) (fun v : ℚ => 1 / v) (1 / 100000000) id
      ([1, 3, 5, 2,  2, 1, 5, 7,  -1, 4, 5, 1,  4, 1, 5, 8] : List ℚ).toArray (4 : ℕ) (2 : ℕ) (2 : ℕ) : Array ℚ)[(0 * 2 + 0 : ℕ)]? = some (1 / 8) := by
  have h := gen_autocorr_tyx_none_eq_model (fun v : ℚ => decide (v = -1)) (fun v : ℚ => 1 / v) (1 / 100000000) id
    [1, 3, 5, 2,  2, 1, 5, 7,  -1, 4, 5, 1,  4, 1, 5, 8] 4 2 2 (by decide) 0 0 (by decide)
  rw [show colSeries ([1, 3, 5, 2,  2, 1, 5, 7,  -1, 4, 5, 1,  4, 1, 5, 8] : List ℚ) 4 2 2 0 0 = [1, 2, -1, 4] by decide +kernel] at h
  refine h.trans ?_
  decide +kernel

/-- pixel (1, 0), series `5 5 5 5`: degenerate (all cells equal), the cell holds `store32 0` -/
example : (Gen.NumKernels.autocorr_tyx_nd (fun v : ℚ => 1 / v) (1 / 100000000) id acCubeT.toArray (4 : ℕ) (2 : ℕ) (2 : ℕ) (-1) : Array ℚ)[(1 * 2 + 0 : ℕ)]?
    = some (id 0) := by
  refine (gen_autocorr_tyx_degenerate (fun _ : ℚ => false) (fun v : ℚ => 1 / v) (1 / 100000000) id [] acCubeT (-1) 4 2 2 1 0
    (by decide)).2 (by decide) (Or.inr (Or.inr (Or.inr ⟨by norm_num, 5, ?_⟩)))
  rw [show colSeries acCubeT 4 2 2 1 0 = [5, 5, 5, 5] by decide]
  intro v hv
  simp [optI] at hv
  exact hv.symm ▸ rfl

/-- `hpix` is needed: beyond the last pixel there is no cell -/
example : (Gen.NumKernels.autocorr_tyx_nd (fun v : ℚ => 1 / v) (1 / 100000000) id acCubeT.toArray (4 : ℕ) (2 : ℕ) (2 : ℕ) (-1) : Array ℚ)[(2 * 2 + 0 : ℕ)]?
    = none :=
  Array.getElem?_eq_none (Nat.le_of_eq (gen_autocorr_tyx_nd_cells _ _ _ _ 4 2 2 _).1)

/-- `hlen` is needed: the shape `(3, 1, 1)` on the buffer `[1, 2]`: the program reads a third cell (0 in the translation,
    anything in Numba), the series of the cells that exist is `1 2` -/
example : (Gen.NumKernels.autocorr_tyx_nd (fun v : ℚ => 1 / v) (1 / 100000000) id [1, 2].toArray (3 : ℕ) (1 : ℕ) (1 : ℕ) (-1) : Array ℚ)[(0 * 1 + 0 : ℕ)]?
    ≠ some (id (Hdc.autocorr1d (fun v : ℚ => 1 / v) (1 / 100000000) (optI (-1) (colSeries [1, 2] 3 1 1 0 0)))) := by
  have h := (gen_autocorr_tyx_nd_cells (fun v : ℚ => 1 / v) (1 / 100000000) id [1, 2].toArray 3 1 1 (-1)).2 0 0 (by decide) (by decide)
  rw [show PyNpX.npCol3 [1, 2].toArray (0 : Int) (3 : ℕ) (1 : ℕ) (1 : ℕ) (0 : ℕ) (0 : ℕ) = [1, 2, 0].toArray by decide,
    GenNumAC1d.gen_autocorr_1d_nd_eq_model] at h
  rw [show colSeries ([1, 2] : List Int) 3 1 1 0 0 = [1, 2] by decide]
  intro h'
  rw [h] at h'
  revert h'
  decide +kernel

/-! ### layout consistency -/

/-- Transposition.  The (t, y, x) wrapper on a cube returns the same ARRAY as the (y, x, t) wrapper on the transposed cube
    (`toYxt` = `np.transpose(tyx, (1, 2, 0))`, flattened), in both specialisations.  Hypothesis: the shape fits the buffer. -/
theorem gen_autocorr_tyx_eq_yxt_transposed (isnan : α → Bool) (rsqrt : α → α) (eps : α) (store32 : α → α)
    (tF : List α) (tI : List Int) (nodata : Int) (nt nr nc : ℕ) :
    (tF.length = nt * nr * nc →
      Gen.NumKernels.autocorr_tyx_none isnan rsqrt eps store32 tF.toArray nt nr nc
        = Gen.NumKernels.autocorr_yxt_none isnan rsqrt eps store32 (toYxt tF nt nr nc).toArray nr nc nt) ∧
    (tI.length = nt * nr * nc →
      Gen.NumKernels.autocorr_tyx_nd rsqrt eps store32 tI.toArray nt nr nc nodata
        = Gen.NumKernels.autocorr_yxt_nd rsqrt eps store32 (toYxt tI nt nr nc).toArray nr nc nt nodata) := by
  refine ⟨fun h => ?_, fun h => ?_⟩
  · refine array_eq_of_cells (gen_autocorr_tyx_none_cells isnan rsqrt eps store32 _ nt nr nc).1
      (GenNumACYxt.gen_autocorr_yxt_none_cells isnan rsqrt eps store32 _ nr nc nt).1 fun r c hr hc => ?_
    rw [gen_autocorr_tyx_none_eq_model isnan rsqrt eps store32 tF nt nr nc h r c (pix_lt hr hc),
      GenNumACYxt.gen_autocorr_yxt_none_eq_model isnan rsqrt eps store32 _ nr nc nt (toYxt_length tF nt nr nc h) r c (pix_lt hr hc),
      rowSeries_toYxt tF nt nr nc r c h hr hc]
  · refine array_eq_of_cells (gen_autocorr_tyx_nd_cells rsqrt eps store32 _ nt nr nc nodata).1
      (GenNumACYxt.gen_autocorr_yxt_nd_cells rsqrt eps store32 _ nr nc nt nodata).1 fun r c hr hc => ?_
    rw [gen_autocorr_tyx_nd_eq_model rsqrt eps store32 tI nt nr nc nodata h r c (pix_lt hr hc),
      GenNumACYxt.gen_autocorr_yxt_nd_eq_model rsqrt eps store32 _ nr nc nt nodata (toYxt_length tI nt nr nc h) r c (pix_lt hr hc),
      rowSeries_toYxt tI nt nr nc r c h hr hc]

/-- the example cube of this file is the transposed example cube of Hdc/Props/GenNumACYxt.lean, so the four pixels agree -/
example : toYxt acCubeT 4 2 2 = GenNumACYxt.acCubeY := by decide

example : Gen.NumKernels.autocorr_tyx_nd (fun v : ℚ => 1 / v) (1 / 100000000) id acCubeT.toArray (4 : ℕ) (2 : ℕ) (2 : ℕ) (-1)
    = Gen.NumKernels.autocorr_yxt_nd (fun v : ℚ => 1 / v) (1 / 100000000) id GenNumACYxt.acCubeY.toArray (2 : ℕ) (2 : ℕ) (4 : ℕ) (-1) := by
  have h := (gen_autocorr_tyx_eq_yxt_transposed (fun _ : ℚ => false) (fun v : ℚ => 1 / v) (1 / 100000000) id [] acCubeT (-1) 4 2 2).2
    (by decide)
  rwa [show toYxt acCubeT 4 2 2 = GenNumACYxt.acCubeY by decide] at h

end Hdc.GenNumACTyx
