import Hdc.Lemmas.StatsMK
import Hdc.Lemmas.StatsSlope
import Mathlib.Tactic.NormNum
/-
C10  Mann-Kendall trend test and Theil-Sen slope (`mann_kendall_trend_1d`).

Formal statements proved in this file (α any linearly ordered field; `F : MKFns α`;
`g : α → α`; spec definitions `sgn`, `S`, `Srec`, `tieCorr`, `Var18`, `Zscore`, `pValue`,
`pairSlopes` below are written without reference to the model):

  1. mkS_def       mkS x = S x,  S x = Σ_{j<n} Σ_{i<j} sgn (x_j − x_i)
     mkS_def_rec   mkS x = Srec x   (recursion on the list)
  2. mkTau_def     mkTau (1/2) x Int.cast = S x / (n (n−1) / 2)           (every n; 0/0 = 0 for n ≤ 1)
  3. mkVar18_def   mkVar18 x = Var18 x = n(n−1)(2n+5) − Σ_{u ∈ x.toFinset} t_u (t_u−1)(2 t_u+5),
                   t_u = x.count u    (both branches of the model)
     mkVar18_noTies        x.Nodup → mkVar18 x = n(n−1)(2n+5)
     tieSizes_length_iff   the model's shortcut test is exactly `x.Nodup`
  4. mkS_strictMono      StrictMono g → mkS (x.map g) = mkS x
     mkVar18_strictMono  StrictMono g → mkVar18 (x.map g) = mkVar18 x
     mkS_strictAnti      StrictAnti g → mkS (x.map g) = − mkS x;   mkVar18_strictAnti: Var unchanged
     mkS_neg, mkVar18_neg   the instance g = negation
     mkS_reverse         mkS x.reverse = − mkS x;   mkVar18_reverse: mkVar18 x.reverse = mkVar18 x
     mkTrend_strictMono  tau, p, trend unchanged under strictly increasing maps
     mkTrend_strictAnti  tau, trend change sign, p unchanged under strictly decreasing maps
     mkTrend_reverse     tau, trend change sign, p unchanged under reversal of the series
     mkTrend_flip        the common core: S ↦ −S with n, Var fixed   (needs ofInt (−s) = −ofInt s)
     mkTrend_neg, mkTrend_reverse_all, mkTrend_affine   all four outputs incl. the slope
  5. mkZ_spec, mkZ_cases   continuity correction: (S−1)/sqrt v, (S+1)/sqrt v, 0
     mkP_value           p = 2 (1 − ½(1 + erf(|z| sqrt ½)))
     mkP_flag            h ↔ zcrit < |z|
     mkP_flag_iff_lt_alpha   h ↔ p < alpha, under: 0 < half, 0 < sqrt half, StrictMono erf,
                         2 (1 − half (1 + erf (zcrit · sqrt half))) = alpha
     trendOf_spec        trend = sgn z if h else 0
     mkTrend_spec        all four outputs of `mkTrend` expressed by the specification
  6. slopesFrom_spec     slopesFrom 0 x = pairSlopes x  (all (x_j − x_i)/(j − i), i < j)
     slopesFrom_length   n(n−1)/2 slopes
     sensSlope_smul      sensSlope (x.map (a * ·)) = a * sensSlope x  for EVERY a
     sensSlope_scale     the case a > 0;   sensSlope_neg;   sensSlope_shift;   sensSlope_reverse
     median_spec         middle order statistic / mean of the two middle ones, for any ascending
                         rearrangement `s` of the data (exists_sorted_perm: there is one)
     median_half         at least half of the entries are ≤ median, at least half are ≥ median

Remarks on the model: the index argument of `slopesFrom` is never used (`Stats.slopesFrom_index`);
`median []` is 0 (NumPy: nan) and `mkTau` is 0 for n ≤ 1 (NumPy: nan) because `x / 0 = 0` in a field —
those inputs are outside the contract of the source.
-/
namespace Hdc.C10
open Finset Hdc.Stats

set_option linter.unusedSectionVars false

variable {α : Type} [Field α] [LinearOrder α] [IsStrictOrderedRing α]

/-! ### Specification (independent of the model code) -/

/-- sign as an integer -/
def sgn (a : α) : Int := if 0 < a then 1 else if a < 0 then -1 else 0

/-- the Mann-Kendall statistic: sum of the signs of all forward differences -/
def S (x : List α) : Int :=
  ∑ j ∈ range x.length, ∑ i ∈ range j, sgn (x.getD j 0 - x.getD i 0)

/-- the same, by recursion on the list -/
def Srec : List α → Int
  | [] => 0
  | x :: xs => (xs.map fun v => sgn (v - x)).sum + Srec xs

/-- tie correction of a group of `t` equal values -/
def tieCorr (t : ℕ) : Int := (t : Int) * ((t : Int) - 1) * (2 * (t : Int) + 5)

/-- 18 · Var(S) with tie correction; the sum runs over the distinct values of `x` -/
def Var18 (x : List α) : Int :=
  (x.length : Int) * ((x.length : Int) - 1) * (2 * (x.length : Int) + 5)
    - ∑ u ∈ x.toFinset, tieCorr (x.count u)

/-- Z score with continuity correction -/
def Zscore (sqrt : α → α) (s : Int) (v : α) : α :=
  if 0 < s then ((s : α) - 1) / sqrt v else if s < 0 then ((s : α) + 1) / sqrt v else 0

/-- two-sided p value from the error function -/
def pValue (sqrt erf : α → α) (z : α) : α := 2 * (1 - (1 / 2) * (1 + erf (|z| * sqrt (1 / 2))))

/-- all divided differences `(x_j − x_i)/(j − i)`, `i < j` -/
def pairSlopes (x : List α) : List α :=
  (List.range x.length).flatMap fun i =>
    (List.range (x.length - 1 - i)).map fun k => (x.getD (i + k + 1) 0 - x.getD i 0) / ((k : α) + 1)

/-! ### 1. the statistic S -/

theorem sgn_sub (a b : α) : sgn (b - a) = sgnLt a b := by
  unfold sgn sgnLt
  simp only [sub_pos, sub_neg]

theorem mkS_def (x : List α) : mkS x = S x := by
  rw [mkS_eq_sum_pairs x 0]
  unfold S
  simp only [sgn_sub]

theorem mkS_def_rec (x : List α) : mkS x = Srec x := by
  induction x with
  | nil => rfl
  | cons a xs ih =>
    rw [mkS_cons, ih, Srec, ← sum_sgnLt]
    simp only [sgn_sub]
    ring

/-! ### 2. tau -/

theorem mkTau_def (x : List α) :
    mkTau (1 / 2 : α) x Int.cast = (S x : α) / ((x.length : α) * ((x.length : α) - 1) / 2) := by
  unfold mkTau
  rw [mkS_def, nat_eq, nat_eq]
  rcases Nat.eq_zero_or_pos x.length with h | h
  · rw [h]; simp
  · rw [Nat.cast_sub h, Nat.cast_one]
    congr 1; ring

/-! ### 3. the variance -/

theorem tieCorr_eq (t : ℕ) : tieCorr t = tieTerm t := rfl

theorem mkVar18_def (x : List α) : mkVar18 x = Var18 x := mkVar18_eq x

theorem Var18_noTies (x : List α) (h : x.Nodup) :
    Var18 x = (x.length : Int) * ((x.length : Int) - 1) * (2 * (x.length : Int) + 5) := by
  unfold Var18
  have : ∑ u ∈ x.toFinset, tieCorr (x.count u) = 0 := by
    apply Finset.sum_eq_zero
    intro u hu
    rw [List.count_eq_one_of_mem h (List.mem_toFinset.1 hu)]
    simp [tieCorr]
  rw [this, sub_zero]

theorem mkVar18_noTies (x : List α) (h : x.Nodup) :
    mkVar18 x = (x.length : Int) * ((x.length : Int) - 1) * (2 * (x.length : Int) + 5) := by
  rw [mkVar18_def, Var18_noTies x h]

/-- the model's shortcut test "as many tie groups as data" is exactly "no ties" -/
theorem tieSizes_length_iff (x : List α) : (tieSizes x).length = x.length ↔ x.Nodup := by
  constructor
  · exact nodup_of_length_tieSizes x
  · intro h
    rw [length_tieSizes, List.toFinset_card_of_nodup h]

/-! ### 4. invariances -/

theorem mkS_strictMono (g : α → α) (hg : StrictMono g) (x : List α) : mkS (x.map g) = mkS x :=
  mkS_map_strictMono g hg x

theorem mkVar18_strictMono (g : α → α) (hg : StrictMono g) (x : List α) :
    mkVar18 (x.map g) = mkVar18 x :=
  mkVar18_map_injective g hg.injective x

theorem mkS_strictAnti (g : α → α) (hg : StrictAnti g) (x : List α) : mkS (x.map g) = - mkS x :=
  mkS_map_strictAnti g hg x

theorem mkVar18_strictAnti (g : α → α) (hg : StrictAnti g) (x : List α) :
    mkVar18 (x.map g) = mkVar18 x :=
  mkVar18_map_injective g hg.injective x

theorem strictAnti_neg : StrictAnti (Neg.neg : α → α) := fun _ _ h => neg_lt_neg h

theorem mkS_neg (x : List α) : mkS (x.map Neg.neg) = - mkS x := mkS_strictAnti _ strictAnti_neg x

theorem mkVar18_neg (x : List α) : mkVar18 (x.map Neg.neg) = mkVar18 x :=
  mkVar18_strictAnti _ strictAnti_neg x

theorem mkS_reverse (x : List α) : mkS x.reverse = - mkS x := Stats.mkS_reverse x

theorem mkVar18_reverse (x : List α) : mkVar18 x.reverse = mkVar18 x := Stats.mkVar18_reverse x

/-- the Z score depends on the data only through `S` and `Var` -/
theorem zOf_eq_of (F : MKFns α) (x y : List α) (hs : mkS y = mkS x) (hv : mkVar18 y = mkVar18 x) :
    zOf F y = zOf F x := by
  unfold zOf; rw [hs, hv]

theorem zOf_neg_of (F : MKFns α) (hodd : ∀ s, F.ofInt (-s) = - F.ofInt s) (x y : List α)
    (hs : mkS y = - mkS x) (hv : mkVar18 y = mkVar18 x) : zOf F y = - zOf F x := by
  unfold zOf; rw [hs, hv, mkZ_neg F hodd]

/-- tau, p and the trend flag are invariant under strictly increasing transformations -/
theorem mkTrend_strictMono (F : MKFns α) (g : α → α) (hg : StrictMono g) (x : List α) :
    (mkTrend F (x.map g)).1 = (mkTrend F x).1 ∧
    (mkTrend F (x.map g)).2.1 = (mkTrend F x).2.1 ∧
    (mkTrend F (x.map g)).2.2.2 = (mkTrend F x).2.2.2 := by
  have hz := zOf_eq_of F x (x.map g) (mkS_strictMono g hg x) (mkVar18_strictMono g hg x)
  refine ⟨?_, ?_, ?_⟩
  · rw [mkTrend_tau, mkTrend_tau]
    exact mkTau_eq_of _ _ _ _ (List.length_map _) (mkS_strictMono g hg x)
  · rw [mkTrend_p, mkTrend_p, hz]
  · rw [mkTrend_trend, mkTrend_trend, hz]

/-- what happens whenever `S` changes sign while `n` and `Var` stay -/
theorem mkTrend_flip (F : MKFns α) (hodd : ∀ s, F.ofInt (-s) = - F.ofInt s) (x y : List α)
    (hl : y.length = x.length) (hs : mkS y = - mkS x) (hv : mkVar18 y = mkVar18 x) :
    (mkTrend F y).1 = - (mkTrend F x).1 ∧
    (mkTrend F y).2.1 = (mkTrend F x).2.1 ∧
    (mkTrend F y).2.2.2 = - (mkTrend F x).2.2.2 := by
  have hz := zOf_neg_of F hodd x y hs hv
  refine ⟨?_, ?_, ?_⟩
  · rw [mkTrend_tau, mkTrend_tau]
    exact mkTau_neg_of _ _ hodd _ _ hl hs
  · rw [mkTrend_p, mkTrend_p, hz, mkP_neg]
  · rw [mkTrend_trend, mkTrend_trend, hz, mkP_neg, trendOf_neg]

/-- under strictly decreasing transformations tau and the trend change sign, p is unchanged -/
theorem mkTrend_strictAnti (F : MKFns α) (hodd : ∀ s, F.ofInt (-s) = - F.ofInt s)
    (g : α → α) (hg : StrictAnti g) (x : List α) :
    (mkTrend F (x.map g)).1 = - (mkTrend F x).1 ∧
    (mkTrend F (x.map g)).2.1 = (mkTrend F x).2.1 ∧
    (mkTrend F (x.map g)).2.2.2 = - (mkTrend F x).2.2.2 :=
  mkTrend_flip F hodd x _ (List.length_map _) (mkS_strictAnti g hg x) (mkVar18_strictAnti g hg x)

/-- reversal of the series: tau and the trend change sign, p is unchanged -/
theorem mkTrend_reverse (F : MKFns α) (hodd : ∀ s, F.ofInt (-s) = - F.ofInt s) (x : List α) :
    (mkTrend F x.reverse).1 = - (mkTrend F x).1 ∧
    (mkTrend F x.reverse).2.1 = (mkTrend F x).2.1 ∧
    (mkTrend F x.reverse).2.2.2 = - (mkTrend F x).2.2.2 :=
  mkTrend_flip F hodd x _ (List.length_reverse) (mkS_reverse x) (mkVar18_reverse x)

/-! ### 5. Z score, p value, decision flag -/

theorem mkZ_spec (F : MKFns α) (hof : ∀ s, F.ofInt s = (s : α)) (s : Int) (v : α) :
    mkZ F s v = Zscore F.sqrt s v := by
  unfold mkZ Zscore
  rw [hof, hof, nat_zero]
  push_cast
  rfl

/-- the three cases of the continuity correction spelled out -/
theorem mkZ_cases (F : MKFns α) (hof : ∀ s, F.ofInt s = (s : α)) (s : Int) (v : α) :
    (0 < s → mkZ F s v = ((s : α) - 1) / F.sqrt v) ∧
    (s < 0 → mkZ F s v = ((s : α) + 1) / F.sqrt v) ∧
    (s = 0 → mkZ F s v = 0) := by
  rw [mkZ_spec F hof]
  unfold Zscore
  refine ⟨fun h => by rw [if_pos h], fun h => ?_, fun h => by subst h; simp⟩
  rw [if_neg (by omega), if_pos h]

theorem mkP_value (F : MKFns α) (hh : F.half = 1 / 2) (z : α) :
    (mkP F z).1 = pValue F.sqrt F.erf z := by
  unfold mkP pValue
  simp only [nat_two, nat_one, absv_eq, hh]

theorem mkP_flag (F : MKFns α) (z : α) : (mkP F z).2 = true ↔ F.zcrit < |z| := by
  unfold mkP
  simp only [absv_eq, decide_eq_true_eq]

/-- the flag is the test `p < alpha` when `erf` is strictly increasing and `zcrit` is the point
    where the p value equals `alpha` -/
theorem mkP_flag_iff_lt_alpha (F : MKFns α) (alpha : α) (hhalf : 0 < F.half)
    (hsq : 0 < F.sqrt F.half) (herf : StrictMono F.erf)
    (hcrit : 2 * (1 - F.half * (1 + F.erf (F.zcrit * F.sqrt F.half))) = alpha) (z : α) :
    (mkP F z).2 = true ↔ (mkP F z).1 < alpha := by
  rw [mkP_flag]
  unfold mkP
  simp only [nat_two, nat_one, absv_eq]
  rw [← hcrit]
  constructor
  · intro h
    have h1 : F.zcrit * F.sqrt F.half < |z| * F.sqrt F.half := mul_lt_mul_of_pos_right h hsq
    have h2 := herf h1
    have h3 := mul_lt_mul_of_pos_left h2 hhalf
    linarith
  · intro h
    have h3 : F.half * F.erf (F.zcrit * F.sqrt F.half) < F.half * F.erf (|z| * F.sqrt F.half) := by
      linarith
    have h2 := lt_of_mul_lt_mul_left h3 hhalf.le
    have h1 := herf.lt_iff_lt.1 h2
    exact lt_of_mul_lt_mul_right h1 hsq.le

theorem trendOf_spec (F : MKFns α) (z : α) :
    trendOf (mkP F z).2 z = if F.zcrit < |z| then sgn z else 0 := by
  unfold trendOf sgn
  rw [nat_zero]
  by_cases h : F.zcrit < |z|
  · rw [(mkP_flag F z).2 h, if_pos h]; simp
  · have : (mkP F z).2 = false := by
      rw [← Bool.not_eq_true, mkP_flag]; exact h
    rw [this, if_neg h]; simp

/-! ### 6. Theil-Sen slope -/

theorem slopesFrom_spec (x : List α) : slopesFrom 0 x = pairSlopes x :=
  slopesFrom_eq_pairSlopesL 0 x

theorem slopesFrom_length (i : ℕ) (x : List α) :
    (slopesFrom i x).length = x.length * (x.length - 1) / 2 :=
  Stats.slopesFrom_length i x

/-- the slope is homogeneous (for every factor, in particular for `a > 0`) -/
theorem sensSlope_smul (a : α) (x : List α) : sensSlope (x.map (a * ·)) = a * sensSlope x := by
  unfold sensSlope
  rw [slopesFrom_map_mul, median_map_mul]

theorem sensSlope_scale (a : α) (_ha : 0 < a) (x : List α) :
    sensSlope (x.map (a * ·)) = a * sensSlope x := sensSlope_smul a x

theorem sensSlope_neg (x : List α) : sensSlope (x.map Neg.neg) = - sensSlope x := by
  unfold sensSlope
  rw [slopesFrom_map_neg, median_map_neg]

theorem sensSlope_shift (c : α) (x : List α) : sensSlope (x.map (· + c)) = sensSlope x := by
  unfold sensSlope
  rw [slopesFrom_map_add]

/-- reversing the series changes the sign of the slope -/
theorem sensSlope_reverse (x : List α) : sensSlope x.reverse = - sensSlope x :=
  Stats.sensSlope_reverse x

/-- `median` is the middle order statistic (odd length) resp. the mean of the two middle
    ones (even length); `s` is any ascending rearrangement of the data -/
theorem median_spec (l s : List α) (hp : s.Perm l) (hs : s.Pairwise (· ≤ ·)) :
    (l.length % 2 = 1 → median l = s.getD (l.length / 2) 0) ∧
    (l.length % 2 = 0 →
      median l = (s.getD (l.length / 2 - 1) 0 + s.getD (l.length / 2) 0) / 2) := by
  rw [median_of_sorted l s hp hs]
  refine ⟨fun h => by rw [if_pos h], fun h => by rw [if_neg (by omega)]⟩

/-- an ascending rearrangement exists (so `median_spec` is not vacuous) -/
theorem exists_sorted_perm (l : List α) : ∃ s : List α, s.Perm l ∧ s.Pairwise (· ≤ ·) :=
  ⟨sortL l, sortL_perm l, sortL_pairwise l⟩

/-- at least half of the entries are `≤` the median and at least half are `≥` it -/
theorem median_half (l : List α) (hl : l ≠ []) :
    l.length ≤ 2 * (l.filter fun v => decide (v ≤ median l)).length ∧
    l.length ≤ 2 * (l.filter fun v => decide (median l ≤ v)).length := by
  rw [← List.countP_eq_length_filter, ← List.countP_eq_length_filter]
  exact Stats.median_half l hl

/-! ### the whole function -/

/-- all four outputs of `mkTrend` in terms of the specification -/
theorem mkTrend_spec (F : MKFns α) (hh : F.half = 1 / 2) (hof : ∀ s, F.ofInt s = (s : α))
    (x : List α) :
    mkTrend F x =
      ( (S x : α) / ((x.length : α) * ((x.length : α) - 1) / 2),
        pValue F.sqrt F.erf (Zscore F.sqrt (S x) ((Var18 x : α) / 18)),
        median (pairSlopes x),
        if F.zcrit < |Zscore F.sqrt (S x) ((Var18 x : α) / 18)|
          then sgn (Zscore F.sqrt (S x) ((Var18 x : α) / 18)) else 0 ) := by
  have hz : zOf F x = Zscore F.sqrt (S x) ((Var18 x : α) / 18) := by
    unfold zOf
    rw [mkZ_spec F hof, mkS_def, mkVar18_def, hof]
    simp [nat]
  have hfun : F.ofInt = Int.cast := funext hof
  refine Prod.ext ?_ (Prod.ext ?_ (Prod.ext ?_ ?_))
  · rw [mkTrend_tau, hh, hfun, mkTau_def]
  · rw [mkTrend_p, mkP_value F hh, hz]
  · rw [mkTrend_slope]; unfold sensSlope; rw [slopesFrom_spec]
  · rw [mkTrend_trend, trendOf_spec, hz]

/-- negating the data: tau, slope and trend change sign, p is unchanged -/
theorem mkTrend_neg (F : MKFns α) (hodd : ∀ s, F.ofInt (-s) = - F.ofInt s) (x : List α) :
    (mkTrend F (x.map Neg.neg)).1 = - (mkTrend F x).1 ∧
    (mkTrend F (x.map Neg.neg)).2.1 = (mkTrend F x).2.1 ∧
    (mkTrend F (x.map Neg.neg)).2.2.1 = - (mkTrend F x).2.2.1 ∧
    (mkTrend F (x.map Neg.neg)).2.2.2 = - (mkTrend F x).2.2.2 := by
  obtain ⟨h1, h2, h3⟩ := mkTrend_strictAnti F hodd _ strictAnti_neg x
  exact ⟨h1, h2, by rw [mkTrend_slope, mkTrend_slope, sensSlope_neg], h3⟩

/-- reversal, all four outputs: tau, slope and trend change sign, p is unchanged -/
theorem mkTrend_reverse_all (F : MKFns α) (hodd : ∀ s, F.ofInt (-s) = - F.ofInt s) (x : List α) :
    (mkTrend F x.reverse).1 = - (mkTrend F x).1 ∧
    (mkTrend F x.reverse).2.1 = (mkTrend F x).2.1 ∧
    (mkTrend F x.reverse).2.2.1 = - (mkTrend F x).2.2.1 ∧
    (mkTrend F x.reverse).2.2.2 = - (mkTrend F x).2.2.2 := by
  obtain ⟨h1, h2, h3⟩ := mkTrend_reverse F hodd x
  exact ⟨h1, h2, by rw [mkTrend_slope, mkTrend_slope, sensSlope_reverse], h3⟩

/-- positive affine maps `v ↦ a v + b`, `a > 0`: tau, p, trend unchanged, slope scaled by `a` -/
theorem mkTrend_affine (F : MKFns α) (a b : α) (ha : 0 < a) (x : List α) :
    (mkTrend F (x.map fun v => a * v + b)).1 = (mkTrend F x).1 ∧
    (mkTrend F (x.map fun v => a * v + b)).2.1 = (mkTrend F x).2.1 ∧
    (mkTrend F (x.map fun v => a * v + b)).2.2.1 = a * (mkTrend F x).2.2.1 ∧
    (mkTrend F (x.map fun v => a * v + b)).2.2.2 = (mkTrend F x).2.2.2 := by
  have hg : StrictMono (fun v : α => a * v + b) := fun u v h => by
    have := mul_lt_mul_of_pos_left h ha
    simp only; linarith
  obtain ⟨h1, h2, h3⟩ := mkTrend_strictMono F _ hg x
  refine ⟨h1, h2, ?_, h3⟩
  rw [mkTrend_slope, mkTrend_slope]
  have : (x.map fun v => a * v + b) = (x.map (a * ·)).map (· + b) := by
    rw [List.map_map]; rfl
  rw [this, sensSlope_shift, sensSlope_smul]

/-! ### Non-vacuity: concrete rational inputs -/

/-- a series with one tie group: S = 5, 18·Var = 5·4·15 − 2·1·9 = 282 -/
example : mkS ([1, 3, 2, 5, 3] : List ℚ) = 5 := by decide
example : S ([1, 3, 2, 5, 3] : List ℚ) = 5 := by rw [← mkS_def]; decide
example : mkVar18 ([1, 3, 2, 5, 3] : List ℚ) = 282 := by decide
example : Var18 ([1, 3, 2, 5, 3] : List ℚ) = 282 := by rw [← mkVar18_def]; decide
/-- without ties the model takes the shortcut branch; the general formula agrees -/
example : mkVar18 ([1, 3, 2, 5] : List ℚ) = 4 * 3 * 13 := by decide
example : ([1, 3, 2, 5] : List ℚ).Nodup := by decide

/-- hypotheses of the invariance theorems are satisfiable -/
example : StrictMono (fun v : ℚ => 2 * v + 1) := fun a b h => by simp only; linarith
example : StrictAnti (fun v : ℚ => 7 - 3 * v) := fun a b h => by simp only; linarith
example : ∀ s : Int, ((-s : Int) : ℚ) = -(s : ℚ) := fun s => by push_cast; rfl

/-- a (toy) instance of the hypotheses of `mkP_flag_iff_lt_alpha` / `mkTrend_spec` -/
def toyFns : MKFns ℚ := ⟨fun _ => 1, id, 1 / 2, 1, Int.cast⟩
example : 0 < toyFns.half ∧ 0 < toyFns.sqrt toyFns.half ∧ StrictMono toyFns.erf ∧
    2 * (1 - toyFns.half * (1 + toyFns.erf (toyFns.zcrit * toyFns.sqrt toyFns.half))) = (0 : ℚ) ∧
    toyFns.half = 1 / 2 ∧ (∀ s, toyFns.ofInt s = (s : ℚ)) := by
  refine ⟨by norm_num [toyFns], by norm_num [toyFns], fun a b h => h, by norm_num [toyFns], rfl,
    fun s => rfl⟩

/-- slopes and their median on a concrete series -/
example : slopesFrom 0 ([0, 2, 4, 12] : List ℚ) = [2, 2, 4, 2, 5, 8] := by
  norm_num [slopesFrom, List.zipIdx, nat]
example : sensSlope ([0, 2, 4, 12] : List ℚ) = 3 := by
  have h : slopesFrom 0 ([0, 2, 4, 12] : List ℚ) = [2, 2, 4, 2, 5, 8] := by
    norm_num [slopesFrom, List.zipIdx, nat]
  unfold sensSlope
  rw [h, (median_spec ([2, 2, 4, 2, 5, 8] : List ℚ) [2, 2, 2, 4, 5, 8] (by decide) (by decide)).2
    (by decide)]
  norm_num
example : median ([3, 1, 2] : List ℚ) = 2 :=
  (median_spec [3, 1, 2] [1, 2, 3] (by decide) (by decide)).1 (by decide)

end Hdc.C10
