import Hdc.Num
/-
PyNpF  HAND-WRITTEN, kernel-independent combinators for the NumPy vector idioms that the translators
(harness/py2lean_fixed.py) meet in the Python kernels, with their list-level characterisations.

  Python                                   Lean (namespace `Hdc.PyNpF`)
  ---------------------------------------  ------------------------------------------------------
  [e(x) for x in a]                         npComp (fun x => e x) a
  np.array(bools, dtype=float64)            npBoolToNum bools            (True -> 1, False -> 0)
  a (op) b       array, array               npZipAA (fun u v => u op v) a b     (op: + - * /  == > <)
  s (op) b       scalar, array              npZipSA (fun u v => u op v) s b
  a (op) s       array, scalar              npZipAS (fun u v => u op v) a s
  np.abs(a), ~mask                          npMap absv a,  npMap (!·) mask
  np.sum(a)                                 npSum a                      (left fold from 0, = `sumF`)
  np.where(c, x, y)                         npWhereAA / npWhereSA / npWhereAS / npWhereSS c x y
  a[mask] = s                               npMaskSetS a mask s
  a[:] = b       (b an array)               npSetAll a b
  a[:] = s       (s a scalar)               npSetAllS a s
  np.round(z, 0, out)                       npRoundInto rnd z out        (`rnd` = round-half-even, a parameter)

Conventions.  In-place assignments keep the shape of their target; where NumPy raises (shape mismatch of an
in-place assignment, a boolean mask of the wrong length) the combinator keeps the target unchanged - the
same convention as `wr` for an out-of-range index.  Elementwise operations on two arrays of different
lengths (NumPy raises) truncate to the shorter one.  No Mathlib here: generated modules import this file.
-/
namespace Hdc.PyNpF

variable {α β γ : Type}

/-! ### the combinators -/

/-- `[f x for x in a]` -/
def npComp (f : α → β) (a : Array α) : Array β := a.map f

/-- `np.array(bools, dtype=float64)` -/
def npBoolToNum [NatCast α] (a : Array Bool) : Array α := a.map fun b => if b then nat 1 else nat 0

/-- elementwise `f` on two arrays -/
def npZipAA (f : α → β → γ) (a : Array α) (b : Array β) : Array γ := Array.zipWith f a b

/-- elementwise `f`, the left operand a (broadcast) scalar -/
def npZipSA (f : α → β → γ) (s : α) (b : Array β) : Array γ := b.map fun v => f s v

/-- elementwise `f`, the right operand a (broadcast) scalar -/
def npZipAS (f : α → β → γ) (a : Array α) (s : β) : Array γ := a.map fun u => f u s

/-- unary ufunc (`np.abs`, `~`) -/
def npMap (f : α → β) (a : Array α) : Array β := a.map f

/-- `np.sum(a)`: left-to-right accumulation from 0 -/
def npSum [Add α] [NatCast α] (a : Array α) : α := a.toList.foldl (· + ·) (nat 0)

/-- `np.where(c, x, y)`, both alternatives arrays -/
def npWhereAA (c : Array Bool) (x y : Array α) : Array α :=
  Array.zipWith (fun c (uv : α × α) => if c then uv.1 else uv.2) c (x.zip y)

/-- `np.where(c, s, y)`, the first alternative a scalar -/
def npWhereSA (c : Array Bool) (s : α) (y : Array α) : Array α :=
  Array.zipWith (fun c v => if c then s else v) c y

/-- `np.where(c, x, s)`, the second alternative a scalar -/
def npWhereAS (c : Array Bool) (x : Array α) (s : α) : Array α :=
  Array.zipWith (fun c u => if c then u else s) c x

/-- `np.where(c, s, t)`, both alternatives scalars -/
def npWhereSS (c : Array Bool) (s t : α) : Array α := c.map fun c => if c then s else t

/-- `a[mask] = s` (in place; a mask of another length: NumPy raises, the array is kept) -/
def npMaskSetS (a : Array α) (mask : Array Bool) (s : α) : Array α :=
  if mask.size = a.size then Array.zipWith (fun u m => if m then s else u) a mask else a

/-- `dst[:] = src` (in place; another length: NumPy raises, the array is kept) -/
def npSetAll (dst src : Array α) : Array α := if src.size = dst.size then src else dst

/-- `dst[:] = s` -/
def npSetAllS (dst : Array α) (s : α) : Array α := dst.map fun _ => s

/-- `np.round(z, 0, out)` (in place in `out`; another length: NumPy raises, `out` is kept) -/
def npRoundInto (rnd : α → α) (z out : Array α) : Array α :=
  if z.size = out.size then z.map rnd else out

/-! ### sizes -/

@[simp] theorem size_npComp (f : α → β) (a : Array α) : (npComp f a).size = a.size := by simp [npComp]
@[simp] theorem size_npBoolToNum [NatCast α] (a : Array Bool) :
    (npBoolToNum a : Array α).size = a.size := by simp [npBoolToNum]
@[simp] theorem size_npZipAA (f : α → β → γ) (a : Array α) (b : Array β) :
    (npZipAA f a b).size = min a.size b.size := by simp [npZipAA]
@[simp] theorem size_npZipSA (f : α → β → γ) (s : α) (b : Array β) :
    (npZipSA f s b).size = b.size := by simp [npZipSA]
@[simp] theorem size_npZipAS (f : α → β → γ) (a : Array α) (s : β) :
    (npZipAS f a s).size = a.size := by simp [npZipAS]
@[simp] theorem size_npMap (f : α → β) (a : Array α) : (npMap f a).size = a.size := by simp [npMap]
@[simp] theorem size_npWhereSA (c : Array Bool) (s : α) (y : Array α) :
    (npWhereSA c s y).size = min c.size y.size := by simp [npWhereSA]
@[simp] theorem size_npWhereAS (c : Array Bool) (x : Array α) (s : α) :
    (npWhereAS c x s).size = min c.size x.size := by simp [npWhereAS]
@[simp] theorem size_npWhereSS (c : Array Bool) (s t : α) : (npWhereSS c s t).size = c.size := by
  simp [npWhereSS]
@[simp] theorem size_npMaskSetS (a : Array α) (mask : Array Bool) (s : α) :
    (npMaskSetS a mask s).size = a.size := by
  unfold npMaskSetS; split <;> simp_all
@[simp] theorem size_npSetAll (dst src : Array α) : (npSetAll dst src).size = dst.size := by
  unfold npSetAll; split <;> simp_all
@[simp] theorem size_npSetAllS (dst : Array α) (s : α) : (npSetAllS dst s).size = dst.size := by
  simp [npSetAllS]
@[simp] theorem size_npRoundInto (rnd : α → α) (z out : Array α) :
    (npRoundInto rnd z out).size = out.size := by
  unfold npRoundInto; split <;> simp_all

/-! ### every combinator as the list-level operation on `toList` -/

theorem npComp_eq (f : α → β) (a : Array α) : npComp f a = (a.toList.map f).toArray := by
  apply Array.toList_inj.1
  simp [npComp]

theorem npBoolToNum_eq [NatCast α] (a : Array Bool) :
    (npBoolToNum a : Array α) = (a.toList.map fun b => if b then (nat 1 : α) else nat 0).toArray := by
  apply Array.toList_inj.1
  simp [npBoolToNum]

theorem npZipAA_eq (f : α → β → γ) (a : Array α) (b : Array β) :
    npZipAA f a b = (List.zipWith f a.toList b.toList).toArray := by
  apply Array.toList_inj.1
  simp [npZipAA]

theorem npZipSA_eq (f : α → β → γ) (s : α) (b : Array β) :
    npZipSA f s b = (b.toList.map fun v => f s v).toArray := by
  apply Array.toList_inj.1
  simp [npZipSA]

theorem npZipAS_eq (f : α → β → γ) (a : Array α) (s : β) :
    npZipAS f a s = (a.toList.map fun u => f u s).toArray := by
  apply Array.toList_inj.1
  simp [npZipAS]

theorem npMap_eq (f : α → β) (a : Array α) : npMap f a = (a.toList.map f).toArray := by
  apply Array.toList_inj.1
  simp [npMap]

theorem npSum_eq [Add α] [NatCast α] (a : Array α) :
    npSum a = a.toList.foldl (· + ·) (nat 0) := rfl

theorem npWhereAA_eq (c : Array Bool) (x y : Array α) :
    npWhereAA c x y
      = (List.zipWith (fun c (uv : α × α) => if c then uv.1 else uv.2) c.toList
          (x.toList.zip y.toList)).toArray := by
  apply Array.toList_inj.1
  simp [npWhereAA]

theorem npWhereSA_eq (c : Array Bool) (s : α) (y : Array α) :
    npWhereSA c s y = (List.zipWith (fun c v => if c then s else v) c.toList y.toList).toArray := by
  apply Array.toList_inj.1
  simp [npWhereSA]

theorem npWhereAS_eq (c : Array Bool) (x : Array α) (s : α) :
    npWhereAS c x s = (List.zipWith (fun c u => if c then u else s) c.toList x.toList).toArray := by
  apply Array.toList_inj.1
  simp [npWhereAS]

theorem npWhereSS_eq (c : Array Bool) (s t : α) :
    npWhereSS c s t = (c.toList.map fun c => if c then s else t).toArray := by
  apply Array.toList_inj.1
  simp [npWhereSS]

theorem npMaskSetS_eq (a : Array α) (mask : Array Bool) (s : α) (h : mask.size = a.size) :
    npMaskSetS a mask s
      = (List.zipWith (fun u m => if m then s else u) a.toList mask.toList).toArray := by
  apply Array.toList_inj.1
  simp [npMaskSetS, h]

theorem npSetAll_eq (dst src : Array α) (h : src.size = dst.size) : npSetAll dst src = src := by
  apply Array.toList_inj.1
  simp [npSetAll, h]

theorem npSetAllS_eq (dst : Array α) (s : α) :
    npSetAllS dst s = (dst.toList.map fun _ => s).toArray := by
  apply Array.toList_inj.1
  simp [npSetAllS]

theorem npRoundInto_eq (rnd : α → α) (z out : Array α) (h : z.size = out.size) :
    npRoundInto rnd z out = (z.toList.map rnd).toArray := by
  apply Array.toList_inj.1
  simp [npRoundInto, h]

/-! ### list facts behind the idioms -/

/-- `a[mask] = s; a[~mask] = t` overwrites every cell -/
theorem maskSet_both (a : List α) (mask : List Bool) (s t : α) (h : mask.length = a.length) :
    List.zipWith (fun u m => if m then t else u)
        (List.zipWith (fun u m => if m then s else u) a mask) (mask.map fun m => !m)
      = mask.map fun m => if m then s else t := by
  induction a generalizing mask with
  | nil => cases mask <;> simp_all
  | cons x xs ih =>
    cases mask with
    | nil => simp at h
    | cons m ms =>
      have := ih ms (by simpa using h)
      cases m <;> simp_all

end Hdc.PyNpF
