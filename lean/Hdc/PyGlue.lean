import Hdc.Py
/-
Hand-written, function-independent prelude of the GLUE translator (harness/py2lean_glue.py).

The pure-Python control logic of the accessor / utility layer (hdc/algo/accessors.py, hdc/algo/utils.py) is translated
statement by statement into programs in the monad `Except Exc` (a Python exception = `.error`); pandas / xarray calls are
PARAMETERS of the generated programs (uninterpreted functions, their assumed behaviour is a hypothesis of the theorems).
Only elementary container semantics is fixed here: indexing, slicing, boolean masks, element-wise comparison, the truth
value of an array, `np.any`, `np.diff(axis=1)`, `range`.

Representation: a 1-d array / pandas Index is a `List`, an (n, k) array a `List (List _)` (rows); Python `int` is `Int`;
`Optional[T]` is `Option T`; a generator returns the list of the yielded values.
-/
namespace Hdc.PyGlue

/-- the Python exceptions the translated functions raise or catch (`other k`: any other exception a library parameter
    may raise; never caught by the translated code) -/
inductive Exc where
  | valueError
  | keyError
  | assertionError
  | typeError
  | indexError
  | overflowError
  | missingTimeError
  | notImplementedError
  | other (k : Nat)
  deriving DecidableEq, Repr

/-- `raise e` (the library instance `throw` for `Except` is avoided: its specification lemma
    `Std.Do.Spec.throw_Except` carries unused universe parameters and cannot be used by `mvcgen`) -/
def raise {α : Type} (e : Exc) : Except Exc α := .error e

/-- `try: x  except <handled>: h`  (the handler decides which exceptions it handles and re-raises the others) -/
def tryExcept {α : Type} (x : Except Exc α) (h : Exc → Except Exc α) : Except Exc α :=
  match x with
  | .ok a => .ok a
  | .error e => h e

/-- `range(a, b)` -/
def range (a b : Int) : List Int := (List.range (b - a).toNat).map fun (k : Nat) => a + Int.ofNat k

/-- `range(a, b, -1)` -/
def rangeDown (a b : Int) : List Int := (List.range (a - b).toNat).map fun (k : Nat) => a - Int.ofNat k

/-- use of a possibly-`None` value as a number (`ii - n`, `x < n`): `TypeError` on `None` -/
def intOf : Option Int → Except Exc Int
  | some v => .ok v
  | none => .error .typeError

/-- `len(a)` -/
def len {α : Type} (a : List α) : Int := (a.length : Int)

/-- `a[i]` on a 1-d container: negative indices wrap, `IndexError` outside `-len(a) ≤ i < len(a)` -/
def getItem {α : Type} (a : List α) (i : Int) : Except Exc α :=
  let j : Int := if i < 0 then i + (a.length : Int) else i
  if j < 0 then .error .indexError
  else match a[j.toNat]? with
    | some v => .ok v
    | none => .error .indexError

/-- `a[lo:hi]` (step 1; `none` = bound omitted; negative bounds wrap, all bounds are clamped: a slice never raises) -/
def slice {α : Type} (a : List α) (lo hi : Option Int) : List α :=
  let n : Int := a.length
  let norm (i : Int) : Nat := (if i < 0 then max 0 (i + n) else min i n).toNat
  let l := match lo with | none => 0 | some i => norm i
  let h := match hi with | none => a.length | some i => norm i
  (a.drop l).take (h - l)

/-- `a[mask]` with a boolean mask: `IndexError` unless `len(mask) == len(a)` -/
def maskSelect {α : Type} (a : List α) (mask : List Bool) : Except Exc (List α) :=
  if mask.length = a.length then .ok (((a.zip mask).filter fun p => p.2).map (·.1))
  else .error .indexError

/-- element-wise binary operation of two 1-d arrays (`a >= b`): `ValueError` (broadcast) unless the lengths agree
    (length-1 broadcasting is not modelled: `ValueError` as well) -/
def zipWithArr {α β γ : Type} (f : α → β → γ) (a : List α) (b : List β) : Except Exc (List γ) :=
  if a.length = b.length then .ok (List.zipWith f a b) else .error .valueError

/-- `bool(arr)` for a 1-d boolean array (`if x > index[-1:]`): the element of a one-element array; `ValueError` for
    an empty array (NumPy ≥ 2.2) and for more than one element -/
def truthArr : List Bool → Except Exc Bool
  | [b] => .ok b
  | _ => .error .valueError

/-- `np.any` on a 1-d / 2-d boolean array -/
def npAny (a : List Bool) : Bool := a.any id
def npAny2 (a : List (List Bool)) : Bool := a.any fun r => r.any id

/-- `np.all` on a 1-d / 2-d boolean array -/
def npAll (a : List Bool) : Bool := a.all id
def npAll2 (a : List (List Bool)) : Bool := a.all fun r => r.all id

/-- `t[:, j]` on an (n, k) array given by rows: `IndexError` when a row has no column `j` (negative `j` wraps) -/
def npCol {α : Type} (t : List (List α)) (j : Int) : Except Exc (List α) := t.mapM fun r => getItem r j

/-- `np.diff(t, axis=1)`: differences of neighbours inside every row -/
def npDiffRows (t : List (List Int)) : List (List Int) :=
  t.map fun r => List.zipWith (fun a b => b - a) r r.tail

/-- insertion into an ascending list (after the entries `≤ x`: stable) -/
def insertAsc {β : Type} [LT β] [DecidableLT β] (x : β) : List β → List β
  | [] => [x]
  | a :: as => if x < a then x :: a :: as else a :: insertAsc x as

/-- `a.sort()` (ascending) -/
def npSort {β : Type} [LT β] [DecidableLT β] (a : List β) : List β := a.foldr insertAsc []

/-- `a[mask] = v` with a boolean mask and a scalar: `IndexError` unless `len(mask) == len(a)` -/
def maskAssign {α : Type} (a : List α) (mask : List Bool) (v : α) : Except Exc (List α) :=
  if mask.length = a.length then .ok (List.zipWith (fun x (m : Bool) => if m then v else x) a mask)
  else .error .indexError

/-- `a[idx]` with an integer index array (fancy indexing): element-wise `a[i]` -/
def gather {α : Type} (a : List α) (idx : List Int) : Except Exc (List α) := idx.mapM fun i => getItem a i

/-- `np.where(mask, a, s)` with an array and a scalar: `ValueError` (broadcast) unless the lengths agree -/
def npWhereS {α : Type} (mask : List Bool) (a : List α) (s : α) : Except Exc (List α) :=
  if mask.length = a.length then .ok (List.zipWith (fun (m : Bool) x => if m then x else s) mask a)
  else .error .valueError

/-- `abs(x)` -/
def pyAbs (x : Int) : Int := if x < 0 then -x else x

end Hdc.PyGlue
