import Hdc.Num
import Hdc.Model.Ws2d
